"""Root-of-trust constructions, computed with hashlib/struct from key *numbers* (no spsdk).

Written from the format descriptions: DESIGN §28 "Cert block v1" / "Cert block v2.1", the class
docstring tables of spsdk/image/ahab/ahab_srk.py (SRK table / SRK record / SRK record V2 / SRK data)
and the HAB4 SRK table layout (spsdk/image/secret.py docstrings; NXP CST "SRK table" format).

A key is a dict as in fixtures/keys/index.json with integers:
    {"type": "rsa", "n": int, "e": int}   or   {"type": "ecc", "curve": "secp256r1", "x": int, "y": int}

Constructions
* cert block v1 (RKHT):   key hash = SHA-256(n || e), both big-endian minimal length
                          (EC keys, accepted by the tools: SHA-256(X || Y), fixed coordinate width);
                          table = 4 x 32 B, unused entries zero;  RKTH = SHA-256(table);
                          fuse word i = little-endian u32 of RKTH[4i:4i+4].
* cert block v2.1:        H = SHA-256 for P-256 (and RSA), SHA-384 for P-384; key hash = H(X || Y);
                          one key: RKTH = key hash, no table;  else table = hashes, RKTH = H(table).
                          Block: "chdr", u16 minor, u16 major, u32 total size; root key record: u32 flags
                          (CA<<31 | used root<<8 | count<<4 | curve 1/2), [table], used root X||Y;
                          ISK certificate: u32 signature offset, u32 constraints, u32 flags
                          (user data<<31 | curve), ISK X||Y, user data, signature (r||s, root's width)
                          by the used root over  root key record || 3 ISK header words || ISK key || user data.
* HAB SRK table:          0xD7, u16 BE length, 0x40; per key 0xE1, u16 BE length, alg (0x21 RSA / 0x27 ECDSA),
                          00 00 00 flag(0x80 = CA); RSA: u16 BE modulus length, u16 BE exponent length, n, e
                          (minimal length); EC: curve id (0x4B/0x4D/0x4E), 00, u16 BE key bits, X, Y.
                          fuses = SHA-256( SHA-256(item 1) || ... || SHA-256(item n) ).
* AHAB SRK table:         0xD7, u16 LE length, 0x42; 4 records: 0xE1, u16 LE length, sign alg (0x22 RSA-PSS /
                          0x27 ECDSA), hash alg (0/1/2 = SHA-256/384/512), key size code, 00, flags(0x80 = CA),
                          u16 LE len1, u16 LE len2, param1 || param2 big-endian at their full widths
                          (RSA: modulus bytes, 4; EC: coordinate, coordinate).  SRK hash = SHA-256(table).
* AHAB SRK table V2:      version 0x43; record as above but parameters replaced by the hash (record's hash alg,
                          zero padded to 64 B) of the SRK data container: 00, u16 LE length, 0x5D, srk id, 00 00 00,
                          param1 || param2.  SRK hash = SHA-512(table).
"""
from __future__ import annotations

import hashlib
import os
import struct
from typing import Optional, Sequence

COORD = {"secp256r1": 32, "secp384r1": 48, "secp521r1": 66}


class Unsupported(Exception):
    """The construction is not defined for this key type (not an error of the code under check)."""


class BlockError(Exception):
    """A certificate block the ROM would not accept."""


def key_from_index(entry: dict) -> dict:
    """fixtures/keys/index.json entry (hex strings) -> key with integers (public part only)."""
    if entry["type"] == "rsa":
        return {"type": "rsa", "n": int(entry["n"], 16), "e": int(entry["e"]) if not isinstance(entry["e"], str)
                else int(entry["e"], 16), "bits": int(entry["bits"])}
    return {"type": "ecc", "curve": entry["curve"], "x": int(entry["x"], 16), "y": int(entry["y"], 16)}


def be_min(v: int) -> bytes:
    return v.to_bytes(max(1, (v.bit_length() + 7) // 8), "big")


def raw_key(k: dict) -> bytes:
    """The "NXP raw" public key: n || e minimal length, or X || Y at the curve's coordinate width."""
    if k["type"] == "rsa":
        return be_min(k["n"]) + be_min(k["e"])
    w = COORD[k["curve"]]
    return k["x"].to_bytes(w, "big") + k["y"].to_bytes(w, "big")


def has_leading_zero(k: dict) -> bool:
    """EC key one of whose coordinates has a zero top byte at the curve's width."""
    if k["type"] != "ecc":
        return False
    w = COORD[k["curve"]]
    return k["x"] >> (8 * (w - 1)) == 0 or k["y"] >> (8 * (w - 1)) == 0


def _same_kind(keys: Sequence[dict]) -> None:
    kinds = {(k["type"], k.get("curve")) for k in keys}
    if len(kinds) != 1:
        raise Unsupported("mixed key types")
    if not 1 <= len(keys) <= 4:
        raise Unsupported("1..4 keys")


# ---------------------------------------------------------------------------------------------
# certificate block v1


def rkh_v1(k: dict) -> bytes:
    if k["type"] == "ecc" and k["curve"] != "secp256r1":
        raise Unsupported("cert block v1 holds 32-byte hashes")
    return hashlib.sha256(raw_key(k)).digest()


def rkht_v1(keys: Sequence[dict]) -> bytes:
    _same_kind(keys)
    t = b"".join(rkh_v1(k) for k in keys)
    return t + bytes(128 - len(t))


def rkth_v1(keys: Sequence[dict]) -> bytes:
    return hashlib.sha256(rkht_v1(keys)).digest()


def rkth_fuses(rkth: bytes) -> list:
    return [int.from_bytes(rkth[i:i + 4], "little") for i in range(0, len(rkth), 4)]


# ---------------------------------------------------------------------------------------------
# certificate block v2.1


def hash_v21(k: dict):
    if k["type"] == "rsa":
        return hashlib.sha256
    if k["curve"] == "secp256r1":
        return hashlib.sha256
    if k["curve"] == "secp384r1":
        return hashlib.sha384
    raise Unsupported("cert block v2.1 knows P-256 and P-384")


def rkh_v21(k: dict) -> bytes:
    return hash_v21(k)(raw_key(k)).digest()


def rkht_v21(keys: Sequence[dict]) -> bytes:
    """The CTRK hash table as stored (empty for a single key)."""
    _same_kind(keys)
    return b"" if len(keys) == 1 else b"".join(rkh_v21(k) for k in keys)


def rkth_v21(keys: Sequence[dict]) -> bytes:
    _same_kind(keys)
    if len(keys) == 1:
        return rkh_v21(keys[0])
    return hash_v21(keys[0])(rkht_v21(keys)).digest()


def root_key_record_v21(keys: Sequence[dict], used: int, ca: bool) -> bytes:
    _same_kind(keys)
    if keys[0]["type"] != "ecc":
        raise Unsupported("cert block v2.1 is EC only")
    curve = {"secp256r1": 1, "secp384r1": 2}.get(keys[0]["curve"])
    if curve is None:
        raise Unsupported("curve")
    flags = (int(bool(ca)) << 31) | (used << 8) | (len(keys) << 4) | curve
    return struct.pack("<L", flags) + rkht_v21(keys) + raw_key(keys[used])


def parse_certblock_v21(data: bytes) -> dict:
    """Read a certificate block v2.1 the way a boot ROM has to: from the bytes only."""
    if len(data) < 16:
        raise BlockError("truncated header")
    magic, minor, major, size = struct.unpack_from("<4s2HL", data, 0)
    if magic != b"chdr":
        raise BlockError(f"magic {magic!r}")
    if (major, minor) != (2, 1):
        raise BlockError(f"version {major}.{minor}")
    if size != len(data):
        raise BlockError(f"header size {size}, block length {len(data)}")
    (flags,) = struct.unpack_from("<L", data, 12)
    ca = bool(flags >> 31)
    used = (flags >> 8) & 0xF
    count = (flags >> 4) & 0xF
    curve = flags & 0xF
    if flags & 0x7FFFF000:
        raise BlockError(f"reserved flag bits set: {flags:#x}")
    if curve not in (1, 2):
        raise BlockError(f"curve nibble {curve}")
    if not 1 <= count <= 4 or used >= count:
        raise BlockError(f"count {count}, used root {used}")
    w = 32 if curve == 1 else 48
    h = hashlib.sha256 if curve == 1 else hashlib.sha384
    off = 16
    table = b""
    if count > 1:
        table = data[off:off + count * w]
        off += count * w
    root = data[off:off + 2 * w]
    off += 2 * w
    if len(root) != 2 * w:
        raise BlockError("truncated root key")
    root_hash = h(root).digest()
    if count > 1:
        entries = [table[i * w:(i + 1) * w] for i in range(count)]
        if entries[used] != root_hash:
            raise BlockError("hash of the root key is not the table entry selected by the flags")
        rkth = h(table).digest()
    else:
        rkth = root_hash
    out = {"flags": flags, "ca": ca, "used": used, "count": count, "curve": curve, "table": table, "root": root,
           "rkth": rkth, "record": data[12:off], "isk": None, "coord": w}
    if ca:
        if off != len(data):
            raise BlockError("bytes after the root key record of a CA block")
        return out
    start = off
    if off + 12 > len(data):
        raise BlockError("truncated ISK header")
    sig_off, constraints, iflags = struct.unpack_from("<3L", data, off)
    icurve = iflags & 0xF
    if icurve not in (1, 2):
        raise BlockError(f"ISK curve nibble {icurve}")
    if iflags & 0x7FFFFFF0:
        raise BlockError(f"reserved ISK flag bits set: {iflags:#x}")
    iw = 32 if icurve == 1 else 48
    key = data[off + 12:off + 12 + 2 * iw]
    ud_start = off + 12 + 2 * iw
    sig_start = start + sig_off
    if sig_start < ud_start or sig_start + 2 * w != len(data):
        raise BlockError(f"signature offset {sig_off} does not leave exactly one signature before the end")
    user_data = data[ud_start:sig_start]
    if bool(iflags >> 31) != bool(user_data):
        raise BlockError("user-data flag does not match the user data length")
    out["isk"] = {"sig_offset": sig_off, "constraints": constraints, "flags": iflags, "curve": icurve, "key": key,
                  "user_data": user_data, "signature": data[sig_start:],
                  "signed": data[12:sig_start]}
    return out


def isk_signature_ok(block: dict, root_xy: Optional[tuple] = None) -> bool:
    """ECDSA verification (own arithmetic, vf.ref.ecdsa) of the ISK certificate of a parsed block under the
    root key stored in the block (or under `root_xy`): hash by the root's curve, r || s at the root's width."""
    from vf.ref import ecdsa

    isk = block["isk"]
    w = block["coord"]
    curve = ecdsa.P256 if block["curve"] == 1 else ecdsa.P384
    if root_xy is None:
        root_xy = (int.from_bytes(block["root"][:w], "big"), int.from_bytes(block["root"][w:], "big"))
    sig = isk["signature"]
    if len(sig) != 2 * w:
        return False
    r, s_ = int.from_bytes(sig[:w], "big"), int.from_bytes(sig[w:], "big")
    return ecdsa.verify(curve, root_xy, "sha256" if block["curve"] == 1 else "sha384", isk["signed"], r, s_)


# ---------------------------------------------------------------------------------------------
# HAB SRK table


def hab_item(k: dict, flag: int = 0) -> bytes:
    if k["type"] == "rsa":
        n, e = be_min(k["n"]), be_min(k["e"])
        body = struct.pack(">4B2H", 0, 0, 0, flag, len(n), len(e)) + n + e
        return struct.pack(">BHB", 0xE1, 4 + len(body), 0x21) + body
    cid = {"secp256r1": 0x4B, "secp384r1": 0x4D, "secp521r1": 0x4E}[k["curve"]]
    bits = {"secp256r1": 256, "secp384r1": 384, "secp521r1": 521}[k["curve"]]
    body = struct.pack(">6BH", 0, 0, 0, flag, cid, 0, bits) + raw_key(k)
    return struct.pack(">BHB", 0xE1, 4 + len(body), 0x27) + body


def hab_table(keys: Sequence[dict], flags: Sequence[int]) -> bytes:
    items = b"".join(hab_item(k, f) for k, f in zip(keys, flags))
    return struct.pack(">BHB", 0xD7, 4 + len(items), 0x40) + items


def hab_fuses(keys: Sequence[dict], flags: Sequence[int]) -> bytes:
    return hashlib.sha256(b"".join(hashlib.sha256(hab_item(k, f)).digest() for k, f in zip(keys, flags))).digest()


# ---------------------------------------------------------------------------------------------
# AHAB SRK tables

_AHAB_RSA = {2048: (0x5, 256), 3072: (0x6, 384), 4096: (0x7, 512)}
_AHAB_ECC = {"secp256r1": (0x1, 32, 0), "secp384r1": (0x2, 48, 1), "secp521r1": (0x3, 66, 2)}


def _ahab_params(k: dict):
    """(sign alg, hash alg, key size code, len1, len2, param bytes)."""
    if k["type"] == "rsa":
        bits = k.get("bits") or k["n"].bit_length()
        if bits not in _AHAB_RSA:
            raise Unsupported("RSA size")
        code, ln = _AHAB_RSA[bits]
        return 0x22, 0, code, ln, 4, k["n"].to_bytes(ln, "big") + k["e"].to_bytes(4, "big")
    code, w, h = _AHAB_ECC[k["curve"]]
    return 0x27, h, code, w, w, k["x"].to_bytes(w, "big") + k["y"].to_bytes(w, "big")


def ahab_record(k: dict, flags: int = 0) -> bytes:
    alg, h, code, l1, l2, params = _ahab_params(k)
    return struct.pack("<BHB4B2H", 0xE1, 12 + len(params), alg, h, code, 0, flags, l1, l2) + params


def ahab_table(keys: Sequence[dict], flags: Sequence[int]) -> bytes:
    if len(keys) != 4:
        raise Unsupported("an AHAB SRK table has exactly four records")
    _same_kind(keys)
    recs = b"".join(ahab_record(k, f) for k, f in zip(keys, flags))
    return struct.pack("<BHB", 0xD7, 4 + len(recs), 0x42) + recs


def ahab_hash(keys: Sequence[dict], flags: Sequence[int]) -> bytes:
    return hashlib.sha256(ahab_table(keys, flags)).digest()


def ahab_srk_data(k: dict, srk_id: int) -> bytes:
    params = _ahab_params(k)[5]
    return struct.pack("<BHB4B", 0x00, 8 + len(params), 0x5D, srk_id, 0, 0, 0) + params


def ahab_record_v2(k: dict, srk_id: int, flags: int = 0) -> bytes:
    alg, h, code, l1, l2, _ = _ahab_params(k)
    hf = (hashlib.sha256, hashlib.sha384, hashlib.sha512)[h]
    digest = hf(ahab_srk_data(k, srk_id)).digest()
    digest += bytes(64 - len(digest))
    return struct.pack("<BHB4B2H", 0xE1, 12 + 64, alg, h, code, 0, flags, l1, l2) + digest


def ahab_table_v2(keys: Sequence[dict], flags: Sequence[int]) -> bytes:
    if len(keys) != 4:
        raise Unsupported("an AHAB SRK table has exactly four records")
    _same_kind(keys)
    recs = b"".join(ahab_record_v2(k, i, f) for i, (k, f) in enumerate(zip(keys, flags)))
    return struct.pack("<BHB", 0xD7, 4 + len(recs), 0x43) + recs


def ahab_hash_v2(keys: Sequence[dict], flags: Sequence[int]) -> bytes:
    return hashlib.sha512(ahab_table_v2(keys, flags)).digest()


# ---------------------------------------------------------------------------------------------
# calibration on the repository's golden files (DESIGN §25 rule)


def _cert_key(path: str) -> dict:
    from vf.ref import der

    data = open(path, "rb").read()
    i = data.find(b"-----BEGIN")
    if i >= 0:  # CST writes an openssl text dump in front of the PEM block
        _, data = der.pem_decode(data[i:])
    spki = der.parse_certificate(data)["spki"]
    if spki["type"] == "rsa":
        spki["bits"] = spki["n"].bit_length()
    return spki


def selftest(repo: Optional[str] = None) -> int:
    """Check the constructions on golden values stored in the repository's tests.  Returns the number of
    golden values compared (0 if the test data are not there)."""
    repo = repo or os.environ.get("VERIF_REPO", "/repo")
    n = 0
    d = os.path.join(repo, "tests", "nxpcrypto", "data")
    ec = [os.path.join(d, f"ec_secp256r1_cert{i}.pem") for i in range(4)]
    if all(os.path.exists(p) for p in ec):
        keys = [_cert_key(p) for p in ec]
        # tests/nxpcrypto/test_nxpcrypto.py::test_nxpcrypto_rot_calc_hash
        assert rkth_v1(keys).hex() == "3f1f71ccd8dfcbcff3e445c21f003a974f8c40ce9aa7d8c567416b9ab45d1655"
        assert rkth_v21(keys).hex() == "3f1f71ccd8dfcbcff3e445c21f003a974f8c40ce9aa7d8c567416b9ab45d1655"
        assert rkth_v1(keys[:1]).hex() == "7eb98e20a565ba54e866a3920967c3a56a1acf07043ab08fc36a90d55a6e0eb0"
        assert rkth_v1(keys[:2]).hex() == "3e3bfcd794c998eeaef6347a2a438ec36e5e5132d350d31fcbd927bfcc120c9e"
        # the golden certificates are CA certificates: SRK flags 0x80
        assert ahab_hash(keys, [0x80] * 4).hex() == "34f1cd4517440f815cf57ae9f80346c74cff8804f8f5fb02b202657271e94d81"
        n += 5
        p = os.path.join(d, "rot_mimxrt1189.bin")
        if os.path.exists(p):
            assert ahab_table(keys, [0x80] * 4) == open(p, "rb").read()
            n += 1
        p = os.path.join(d, "rot_lpc550x.bin")
        if os.path.exists(p):
            assert rkht_v1(keys) == open(p, "rb").read()
            n += 1
    srk = [os.path.join(d, f"SRK{i}_sha256_secp384r1_v3_ca_crt.pem") for i in range(1, 5)]
    if all(os.path.exists(p) for p in srk):
        keys = [_cert_key(p) for p in srk]
        assert hab_fuses(keys, [0x80] * 4).hex() == "bcd8f444bd7f9ccd8048a8bcf8c2764f085058ed527c6978037a94ffb81c14e8"
        n += 1
        p = os.path.join(d, "rot_mimxrt1176.bin")
        if os.path.exists(p):
            assert hab_table(keys, [0x80] * 4) == open(p, "rb").read()
            n += 1
    d = os.path.join(repo, "tests", "image", "secret", "data")
    srk = [os.path.join(d, f"SRK{i}_sha256_4096_65537_v3_ca_crt.pem") for i in range(1, 5)]
    if all(os.path.exists(p) for p in srk + [os.path.join(d, "SRK_1_2_3_4_fuse.bin")]):
        keys = [_cert_key(p) for p in srk]
        assert hab_fuses(keys, [0x80] * 4) == open(os.path.join(d, "SRK_1_2_3_4_fuse.bin"), "rb").read()
        assert hab_table(keys, [0x80] * 4) == open(os.path.join(d, "SRK_1_2_3_4_table.bin"), "rb").read()
        n += 2
    d = os.path.join(repo, "tests", "mcu_examples", "data", "rt10xx")
    srk = [os.path.join(d, "crts", f"SRK{i}_sha256_2048_65537_v3_ca_crt.pem") for i in range(1, 5)]
    if all(os.path.exists(p) for p in srk + [os.path.join(d, "srk", "SRK_fuses.bin")]):
        keys = [_cert_key(p) for p in srk]
        assert hab_fuses(keys, [0x80] * 4) == open(os.path.join(d, "srk", "SRK_fuses.bin"), "rb").read()
        assert hab_table(keys, [0x80] * 4) == open(os.path.join(d, "srk", "SRK_hash_table.bin"), "rb").read()
        n += 2
    d = os.path.join(repo, "tests", "utils", "crypto", "data", "certs_and_keys")
    crt = [os.path.join(d, f"root_k{i}_signed_cert0_noca.der.cert") for i in (0, 1, 2)]
    if all(os.path.exists(p) for p in crt):
        keys = [_cert_key(p) for p in crt]
        # tests/utils/crypto/test_rkht.py::test_rkhtv1_from_keys_cert
        assert rkth_v1(keys + keys[:1]).hex() == "46375246bab50ecdd35014b6782f1e81fc4f8a047705f11274031f7297a6ae86"
        assert rkth_v1(keys[:2]).hex() == "5905022784a39901b0dc0860c9455cd1b83c5336a2e973825759961554664c89"
        assert rkth_v1(keys[:1]).hex() == "db31d46c717711a8231cbc38b1de8a6e8657e1f733e04c2ee4b62fcea59149fa"
        n += 3
    d = os.path.join(repo, "tests", "nxpimage", "data", "workspace", "output_images", "lpc55s3x")
    for name, curve, icurve, ud in (("cert_256_256.bin", 1, 1, 368), ("cert_384_256.bin", 2, 1, 0),
                                    ("cert_384_384.bin", 2, 2, 0)):
        p = os.path.join(d, name)
        if os.path.exists(p):
            b = parse_certblock_v21(open(p, "rb").read())
            assert (b["curve"], b["isk"]["curve"], len(b["isk"]["user_data"]), b["count"]) == (curve, icurve, ud, 4)
            assert isk_signature_ok(b), name
            n += 1
    return n


if __name__ == "__main__":
    print("golden values compared:", selftest())
