"""Independent denotational semantics of the supported subset of the SB2.1 command-file (BD)
language (oracle of C19).  Shares no code with spsdk: own lexer, own recursive-descent /
precedence-climbing parser, exact integer evaluation, own model of what each statement means
as a boot command.

Sources: docs/usage/elf2sb.md (grammar: blocks, statements, expression forms), the docstrings of
sly_bd_lexer.py (literal forms: decimal, decimal+K, hex, 'chars', size suffix .b/.h/.w = Byte /
Halfword / Word "taken into account during number computation"), the statement descriptions
and examples in sb_21_helper.py, the C operator table (the parser's own `precedence` tuple is
the same table), and the command stream of the elftosb-generated golden files under
tests/nxpimage/data/sb_sources/SB_files (decoded once while building the model: blob bytes are
loaded in written order; `load fuse {{aa bb cc dd}}` programs the little-endian word
0xDDCCBBAA; memory id m is encoded into the command flags as ((m & 0xFF) << 8) | ((m >> 8) << 4);
erase all / unsecure all = flags 1 / 2; enable: count 4; jump_sp: flags 2, count = SP).

Three functions matter:

    evaluate_program(text, extern)  -> Program      (text -> expected parser dictionary)
    expr_tree(text_of_one_expression, env) -> Node  (for locating the smallest failing sub-tree)
    expected_command(kind, args, keyblobs, files) -> dict of header fields that are *specified*

What the semantics does not define is said explicitly, never guessed:

    Excluded      conventions differ between C and Python or are undefined in C (negative operand
                  of / % << >>, division by zero, shift count >= 64, size suffix of a negative
                  number, decimal literal with a leading zero): no value is compared
    Unsupported   a construct the documentation declares unsupported: SPSDK must refuse it
    Outside       the text is outside the subset (undefined identifier, boolean operand of an
                  arithmetic operator, ...): no judgement at all
    BDSyntax      not derivable from the documented grammar
"""
from __future__ import annotations

from typing import Any, Optional


class Excluded(Exception):
    pass


class Unsupported(Exception):
    pass


class Outside(Exception):
    pass


class BDSyntax(Exception):
    pass


# ---------------------------------------------------------------------------------------------
# lexer

KEYWORDS = {
    "options", "constants", "sources", "keyblob", "section", "load", "erase", "enable", "call",
    "jump", "jump_sp", "reset", "encrypt", "keywrap", "keystore_to_nv", "keystore_from_nv",
    "version_check", "sec", "nsec", "all", "unsecure", "extern", "defined", "sizeof", "if",
    "else", "from", "mode", "info", "warning", "error",
}
BOOL_WORDS = {"true": 1, "yes": 1, "false": 0, "no": 0}
_TWO = ("||", "&&", "<<", ">>", "<=", ">=", "==", "!=", "..")
_ONE = "+-*/%&|^~!<>=(){},.;:?@$"
_IDS = "_abcdefghijklmnopqrstuvwxyzABCDEFGHIJKLMNOPQRSTUVWXYZ"
_IDC = _IDS + "0123456789"
_HEX = "0123456789abcdefABCDEF"


class Tok:
    __slots__ = ("kind", "val", "a", "b", "line", "flag")

    def __init__(self, kind, val, a, b, line, flag=None):
        self.kind, self.val, self.a, self.b, self.line, self.flag = kind, val, a, b, line, flag

    def __repr__(self):
        return f"{self.kind}:{self.val!r}"


def lex(text: str) -> list:
    toks = []
    i, n, line = 0, len(text), 1
    while i < n:
        c = text[i]
        if c == "\n":
            line += 1
            i += 1
            continue
        if c in " \t\r":
            i += 1
            continue
        if c == "#" or text.startswith("//", i):
            j = text.find("\n", i)
            i = n if j < 0 else j
            continue
        if text.startswith("/*", i):
            j = text.find("*/", i + 2)
            if j < 0:
                raise BDSyntax("unterminated comment")
            line += text.count("\n", i, j)
            i = j + 2
            continue
        if text.startswith("{{", i):
            j = text.find("}}", i)
            if j < 0:
                raise BDSyntax("unterminated blob")
            body = text[i + 2:j]
            hexd = "".join(body.split(" "))
            if not hexd or len(hexd) % 2 or any(ch not in _HEX for ch in hexd):
                raise BDSyntax("bad blob")
            # pairs must not be split by blanks
            for part in body.split(" "):
                if len(part) % 2:
                    raise BDSyntax("bad blob")
            toks.append(Tok("blob", hexd, i, j + 2, line))
            i = j + 2
            continue
        if c == '"':
            j = text.find('"', i + 1)
            k = text.find("\n", i + 1)
            if j < 0 or (0 <= k < j):
                raise BDSyntax("unterminated string")
            toks.append(Tok("str", text[i + 1:j], i, j + 1, line))
            i = j + 1
            continue
        if c == "'":
            j = text.find("'", i + 1)
            k = text.find("\n", i + 1)
            if j < 0 or (0 <= k < j) or j == i + 1:
                raise BDSyntax("bad char literal")
            v = 0
            for ch in text[i + 1:j].encode("utf-8"):
                v = v * 256 + ch
            toks.append(Tok("int", v, i, j + 1, line, "char"))
            i = _suffix(text, j + 1, toks, line)
            continue
        if c in "0123456789":
            j = i
            flag = "dec"
            if c == "0" and i + 1 < n and text[i + 1] in "xX":
                j = i + 2
                while j < n and text[j] in _HEX:
                    j += 1
                if j == i + 2:
                    raise BDSyntax("bad hex literal")
                v = int(text[i + 2:j], 16)
                flag = "hex"
            else:
                while j < n and text[j] in "0123456789":
                    j += 1
                digits = text[i:j]
                v = 0
                for ch in digits:
                    v = v * 10 + (ord(ch) - 48)
                if len(digits) > 1 and digits[0] == "0" and v != 0:
                    flag = "leading-zero"  # 010: octal in C, decimal elsewhere -> value undefined
                if j < n and text[j] == "K":
                    v *= 1024
                    j += 1
                    flag = "K" if flag == "dec" else flag
            if j < n and text[j] in _IDC:
                raise BDSyntax("letters glued to a number")
            toks.append(Tok("int", v, i, j, line, flag))
            i = j
            i = _suffix(text, i, toks, line)
            continue
        if c in _IDS:
            j = i
            while j < n and text[j] in _IDC:
                j += 1
            w = text[i:j]
            if w in BOOL_WORDS:
                toks.append(Tok("int", BOOL_WORDS[w], i, j, line, "word"))
            elif w in KEYWORDS:
                toks.append(Tok("kw", w, i, j, line))
            else:
                toks.append(Tok("id", w, i, j, line))
                j = _suffix(text, j, toks, line)
            i = j
            continue
        two = text[i:i + 2]
        if two in _TWO:
            toks.append(Tok("op", two, i, i + 2, line))
            i += 2
            continue
        if c in _ONE:
            toks.append(Tok("op", c, i, i + 1, line))
            i += 1
            if c == ")":
                i = _suffix(text, i, toks, line)
            continue
        raise BDSyntax(f"unexpected character {c!r}")
    return toks


def _suffix(text: str, i: int, toks: list, line: int) -> int:
    """`.b` / `.h` / `.w` directly behind an operand (not the start of a `..` range)."""
    n = len(text)
    while i + 1 < n and text[i] == "." and text[i + 1] in "whb" and (i + 2 >= n or text[i + 2] not in _IDC):
        toks.append(Tok("suffix", text[i + 1], i, i + 2, line))
        i += 2
    return i


# ---------------------------------------------------------------------------------------------
# expressions: AST = Node(kind, op, kids, a, b) with source span [a, b)

class Node:
    __slots__ = ("kind", "op", "kids", "a", "b", "val", "flag")

    def __init__(self, kind, op, kids, a, b, val=None, flag=None):
        self.kind, self.op, self.kids, self.a, self.b, self.val, self.flag = kind, op, kids, a, b, val, flag

    def walk(self):
        for k in self.kids:
            yield from k.walk()
        yield self


# C operator table, loosest first (the documented table of the BD parser is the same one)
BINPREC = {
    "||": 1, "&&": 2, "|": 3, "^": 4, "&": 5, "==": 6, "!=": 6,
    "<": 7, "<=": 7, ">": 7, ">=": 7, "<<": 8, ">>": 8, "+": 9, "-": 9, "*": 10, "/": 10, "%": 10,
}
ARITH = {"|", "^", "&", "<<", ">>", "+", "-", "*", "/", "%"}
BOOLOPS = {"||", "&&", "==", "!=", "<", "<=", ">", ">="}


class _P:
    """Token cursor shared by the expression and the program parser."""

    def __init__(self, toks: list, text: str):
        self.t = toks
        self.i = 0
        self.text = text
        self.source_names: Any = ()

    def peek(self, k: int = 0) -> Optional[Tok]:
        j = self.i + k
        return self.t[j] if j < len(self.t) else None

    def is_op(self, v: str, k: int = 0) -> bool:
        t = self.peek(k)
        return t is not None and t.kind == "op" and t.val == v

    def is_kw(self, v: str, k: int = 0) -> bool:
        t = self.peek(k)
        return t is not None and t.kind == "kw" and t.val == v

    def next(self) -> Tok:
        t = self.peek()
        if t is None:
            raise BDSyntax("unexpected end of input")
        self.i += 1
        return t

    def expect_op(self, v: str) -> Tok:
        t = self.next()
        if t.kind != "op" or t.val != v:
            raise BDSyntax(f"expected {v!r}, found {t!r}")
        return t

    def expect(self, kind: str) -> Tok:
        t = self.next()
        if t.kind != kind:
            raise BDSyntax(f"expected {kind}, found {t!r}")
        return t

    # ---- expression grammar (precedence climbing) -------------------------------------------
    def expr(self, minprec: int = 1, stop_gt: bool = False) -> Node:
        """`stop_gt`: inside `load <data> > <target>` the first top-level `>` ends the data
        expression (the documented grammar gives load_data an int_const_expr, which contains no
        comparison)."""
        left = self.unary(stop_gt)
        while True:
            t = self.peek()
            if t is None or t.kind != "op" or t.val not in BINPREC:
                break
            if stop_gt and t.val in BOOLOPS:
                break
            p = BINPREC[t.val]
            if p < minprec:
                break
            self.i += 1
            right = self.expr(p + 1, stop_gt)  # all binary operators are left-associative
            left = Node("bin", t.val, [left, right], left.a, right.b)
        return left

    def unary(self, stop_gt: bool = False) -> Node:
        t = self.peek()
        if t is None:
            raise BDSyntax("operand expected")
        if t.kind == "op" and t.val in ("+", "-", "!"):
            self.i += 1
            k = self.unary(stop_gt)
            return Node("un", t.val, [k], t.a, k.b)
        return self.postfix()

    def postfix(self) -> Node:
        n = self.primary()
        while True:
            t = self.peek()
            if t is not None and t.kind == "suffix":
                self.i += 1
                n = Node("suf", t.val, [n], n.a, t.b)
            else:
                return n

    def primary(self) -> Node:
        t = self.next()
        if t.kind == "int":
            return Node("int", None, [], t.a, t.b, val=t.val, flag=t.flag)
        if t.kind == "id":
            if self.is_op("?"):
                raise Unsupported("symbol reference")
            if self.is_op("(") and self.is_op(")", 2) and self.peek(1) is not None \
                    and self.peek(1).kind == "id" and self.peek(1).val in self.source_names:
                raise Unsupported("IDENT ( source_name )")
            return Node("id", t.val, [], t.a, t.b)
        if t.kind == "kw" and t.val == "defined":
            self.expect_op("(")
            name = self.next()
            if name.kind not in ("id",):
                raise BDSyntax("defined() needs an identifier")
            r = self.expect_op(")")
            return Node("defined", name.val, [], t.a, r.b)
        if t.kind == "kw" and t.val == "sizeof":
            raise Unsupported("sizeof")
        if t.kind == "op" and t.val == "(":
            k = self.expr()
            r = self.expect_op(")")
            return Node("paren", None, [k], t.a, r.b)
        raise BDSyntax(f"operand expected, found {t!r}")


SHIFT_LIMIT = 64


def eval_node(n: Node, env: dict) -> tuple:
    """-> (value, type) with type in {"int", "bool"}; raises Excluded / Outside."""
    k = n.kind
    if k == "int":
        if n.flag == "leading-zero":
            raise Excluded("leading-zero-literal")
        return n.val, "int"
    if k == "id":
        if n.op not in env:
            raise Outside(f"undefined identifier {n.op}")
        return env[n.op], "int"
    if k == "defined":
        return (1 if n.op in env else 0), "bool"
    if k == "paren":
        return eval_node(n.kids[0], env)
    if k == "suf":
        v, t = eval_node(n.kids[0], env)
        if t != "int":
            raise Outside("size suffix on a boolean")
        if v < 0:
            raise Excluded("suffix-of-negative")
        return v & {"b": 0xFF, "h": 0xFFFF, "w": 0xFFFFFFFF}[n.op], "int"
    if k == "un":
        v, t = eval_node(n.kids[0], env)
        if n.op == "!":
            return (0 if v else 1), "bool"
        if t != "int":
            raise Outside("sign of a boolean")
        return (-v if n.op == "-" else v), "int"
    # binary: both operands are always evaluated (any exclusion anywhere excludes the case)
    exc = None
    vals = []
    for kid in n.kids:
        try:
            vals.append(eval_node(kid, env))
        except Excluded as e:
            exc = exc or e
            vals.append((1, "int"))
    if exc:
        raise exc
    (a, ta), (b, tb) = vals
    op = n.op
    if op in ARITH:
        if ta != "int" or tb != "int":
            raise Outside("boolean operand of an arithmetic operator")
        if op == "+":
            return a + b, "int"
        if op == "-":
            return a - b, "int"
        if op == "*":
            return a * b, "int"
        if op in ("/", "%"):
            if b == 0:
                raise Excluded("division-by-zero")
            if a < 0 or b < 0:
                raise Excluded("negative-operand:" + op)
            return (a // b if op == "/" else a - (a // b) * b), "int"
        if op in ("<<", ">>"):
            if a < 0 or b < 0:
                raise Excluded("negative-operand:" + op)
            if b >= SHIFT_LIMIT:
                raise Excluded("shift-count")
            return (a << b if op == "<<" else a >> b), "int"
        if op == "&":
            return a & b, "int"
        if op == "|":
            return a | b, "int"
        return a ^ b, "int"
    if op == "&&":
        return (1 if (a != 0 and b != 0) else 0), "bool"
    if op == "||":
        return (1 if (a != 0 or b != 0) else 0), "bool"
    r = {"==": a == b, "!=": a != b, "<": a < b, "<=": a <= b, ">": a > b, ">=": a >= b}[op]
    return (1 if r else 0), "bool"


def has_shift_risk(n: Node, env: dict) -> bool:
    """True when some shift in the tree has a count the evaluator would exclude as too large
    (such a program is not even executed: Python would build a gigantic integer)."""
    for x in n.walk():
        if x.kind == "bin" and x.op in ("<<", ">>"):
            try:
                v, _t = eval_node(x.kids[1], env)
            except (Excluded, Outside):
                return True
            if v >= SHIFT_LIMIT:
                return True
    return False


def expr_tree(text: str, stop_gt: bool = False) -> Node:
    p = _P(lex(text), text)
    n = p.expr(1, stop_gt)
    if p.peek() is not None:
        raise BDSyntax(f"trailing input {p.peek()!r}")
    return n


# ---------------------------------------------------------------------------------------------
# programs

# MCU bootloader memory identifiers (reference manual, "memory ID" table) for the legacy names
MEMORY_NAMES = {
    "internal": 0, "qspi": 1, "ifr": 4, "fuse": 4, "semcnor": 8, "flexspinor": 9,
    "semcnand": 0x100, "spinand": 0x101, "spieeprom": 0x110, "i2ceeprom": 0x111,
    "sdcard": 0x120, "mmccard": 0x121,
}


class Program:
    def __init__(self) -> None:
        self.options: dict = {}
        self.constants: dict = {}
        self.sources: dict = {}
        self.keyblobs: list = []
        self.sections: list = []
        self.has_options = self.has_sources = False
        self.exprs: list = []      # (where, Node, expected value or exception) for diagnosis
        self.blocked: Optional[Exception] = None  # first Excluded / Outside: nothing is compared
        self.text = ""
        self.features: set = set()

    def as_dict(self) -> dict:
        d: dict = {"options": dict(self.options), "sources": dict(self.sources),
                   "keyblobs": list(self.keyblobs), "sections": list(self.sections)}
        return d


class _Prog(_P):
    def __init__(self, text: str, extern: Optional[list]):
        super().__init__(lex(text), text)
        self.extern = list(extern or [])
        self.pr = Program()
        self.source_names = self.pr.sources

    # values ----------------------------------------------------------------------------------
    def int_expr(self, where: str, stop_gt: bool = False) -> int:
        n = self.expr(1, stop_gt)
        try:
            v, t = eval_node(n, self.pr.constants)
            if t != "int":
                raise Outside("boolean where an integer expression is required")
        except (Excluded, Outside) as e:
            self.pr.exprs.append((where, n, e))
            self.pr.blocked = self.pr.blocked or e
            return 0
        self.pr.exprs.append((where, n, v))
        return v

    def bool_expr(self, where: str) -> int:
        n = self.expr()
        try:
            v, _t = eval_node(n, self.pr.constants)
        except (Excluded, Outside) as e:
            self.pr.exprs.append((where, n, e))
            self.pr.blocked = self.pr.blocked or e
            return 0
        self.pr.exprs.append((where, n, v))
        return v

    def const_expr(self, where: str) -> Any:
        t = self.peek()
        if t is not None and t.kind == "str":
            self.i += 1
            return t.val
        return self.bool_expr(where)

    # blocks ----------------------------------------------------------------------------------
    def program(self) -> Program:
        while self.peek() is not None and not self.is_kw("section"):
            t = self.next()
            if t.kind != "kw":
                raise BDSyntax(f"block expected, found {t!r}")
            if t.val == "options":
                self.pr.has_options = True
                self.expect_op("{")
                while not self.is_op("}"):
                    name = self.expect("id").val
                    self.expect_op("=")
                    self.pr.options[name] = self.const_expr(f"option {name}")
                    self.expect_op(";")
                self.expect_op("}")
            elif t.val == "constants":
                self.expect_op("{")
                while not self.is_op("}"):
                    name = self.expect("id").val
                    self.expect_op("=")
                    v = self.bool_expr(f"constant {name}")
                    self.expect_op(";")
                    if name in self.pr.constants:
                        raise Outside("constant defined twice")
                    self.pr.constants[name] = v
                self.expect_op("}")
            elif t.val == "sources":
                self.pr.has_sources = True
                self.expect_op("{")
                while not self.is_op("}"):
                    name = self.expect("id").val
                    self.expect_op("=")
                    if self.is_kw("extern"):
                        self.i += 1
                        self.expect_op("(")
                        idx = self.int_expr(f"extern index of {name}")
                        self.expect_op(")")
                        if not 0 <= idx < len(self.extern):
                            raise Unsupported("extern() index out of range")
                        val = self.extern[idx]
                    else:
                        val = self.expect("str").val
                    if self.is_op("("):
                        raise Unsupported("source attribute list")
                    self.expect_op(";")
                    if name in self.pr.sources or name in self.pr.constants:
                        raise Outside("name defined twice")
                    self.pr.sources[name] = val
                self.expect_op("}")
            elif t.val == "keyblob":
                self.expect_op("(")
                kid = self.int_expr("keyblob id")
                self.expect_op(")")
                self.expect_op("{")
                self.expect_op("(")
                content: dict = {}
                if self.is_op(")"):
                    raise Unsupported("empty keyblob contents")
                while True:
                    name = self.expect("id").val
                    self.expect_op("=")
                    content[name] = self.const_expr(f"keyblob {name}")
                    if self.is_op(","):
                        self.i += 1
                        continue
                    break
                self.expect_op(")")
                if self.is_op("("):
                    raise Unsupported("several keyblob content groups")
                self.expect_op("}")
                self.pr.keyblobs.append({"keyblob_id": kid, "keyblob_content": [content]})
            else:
                raise BDSyntax(f"block expected, found {t!r}")
        while self.peek() is not None:
            if not self.is_kw("section"):
                raise BDSyntax("section expected (pre-section blocks must precede sections)")
            self.i += 1
            self.expect_op("(")
            sid = self.int_expr("section id")
            if self.is_op(";"):
                raise Unsupported("section options")
            self.expect_op(")")
            if self.is_op("<="):
                raise Unsupported("section <= source")
            self.expect_op("{")
            cmds = []
            while not self.is_op("}"):
                cmds.append(self.statement())
            self.expect_op("}")
            self.pr.sections.append({"section_id": sid, "commands": cmds})
        return self.pr

    # statements ------------------------------------------------------------------------------
    def address_or_range(self, where: str) -> dict:
        a = self.int_expr(where + " address")
        if self.is_op(".."):
            self.i += 1
            e = self.int_expr(where + " range end")
            return {"address": a, "length": e - a}
        return {"address": a}

    def mem_opt(self, key: str, where: str) -> dict:
        if self.is_op("@"):
            self.i += 1
            return {key: self.int_expr(where + " memory id")}
        t = self.peek()
        if t is not None and t.kind == "id" and t.val in MEMORY_NAMES \
                and t.val not in self.pr.constants and t.val not in self.pr.sources:
            self.i += 1
            return {key: t.val}
        if t is not None and t.kind == "id" and (self.is_op("+", 1) or self.is_op("-", 1)):
            # `erase X + 4` / `load X - 1 > a`: the documented grammar derives both "memory X,
            # operand +4" and "operand X + 4" -> no judgement
            raise Outside("identifier followed by a sign where a memory option may stand")
        return {}

    def load_body(self) -> dict:
        """after LOAD: load_opt load_data load_target -> {'fill'|'load': {...}}"""
        opt = self.mem_opt("load_opt", "load")
        t = self.peek()
        if t is None:
            raise BDSyntax("load data expected")
        data: dict
        if t.kind == "str":
            self.i += 1
            data = {"file": t.val}
        elif t.kind == "blob":
            self.i += 1
            data = {"values": t.val}
        elif t.kind == "id" and t.val in self.pr.sources:
            self.i += 1
            if self.is_op("?"):
                raise Unsupported("symbol reference")
            data = {"file": self.pr.sources[t.val]}
        elif t.kind == "op" and t.val in ("$", "~"):
            raise Unsupported("section list")
        else:
            data = {"pattern": self.int_expr("load pattern", stop_gt=True)}
        if not self.is_op(">"):
            raise Unsupported("load without target")
        self.i += 1
        if self.is_op(".") or (self.peek() is not None and self.peek().kind == "op" and self.peek().val == "."):
            raise Unsupported("'.' as load target")
        tgt = self.address_or_range("load")
        kind = "fill" if ("pattern" in data and not opt) else "load"
        body: dict = {}
        body.update(opt)
        body.update(data)
        body.update(tgt)
        return {kind: body}

    def statement(self) -> dict:
        t = self.next()
        if t.kind != "kw":
            raise BDSyntax(f"statement expected, found {t!r}")
        k = t.val
        if k in ("if", "else"):
            raise Unsupported("if/else")
        if k == "from":
            raise Unsupported("from statement")
        if k == "mode":
            raise Unsupported("mode statement")
        if k in ("info", "warning", "error"):
            raise Unsupported("message statement")
        if k == "load":
            st = self.load_body()
        elif k == "erase":
            if self.is_kw("unsecure"):
                self.i += 1
                if not self.is_kw("all"):
                    raise BDSyntax("erase unsecure all")
                self.i += 1
                st = {"erase": {"address": 0, "flags": 2}}
            else:
                opt = self.mem_opt("mem_opt", "erase")
                if self.is_kw("all"):
                    self.i += 1
                    body = {"address": 0, "flags": 1}
                else:
                    body = self.address_or_range("erase")
                body.update(opt)
                st = {"erase": body}
        elif k == "enable":
            opt = self.mem_opt("mem_opt", "enable")
            body = dict(opt)
            body["address"] = self.int_expr("enable address")
            st = {"enable": body}
        elif k in ("call", "jump", "jump_sp"):
            body = {}
            if k == "jump_sp":
                body["spreg"] = self.int_expr("jump_sp stack pointer")
            t2 = self.peek()
            if t2 is not None and t2.kind == "id" and t2.val in self.pr.sources:
                raise Unsupported("source / symbol as call target")
            body["address"] = self.int_expr(k + " address")
            if self.is_op("("):
                self.i += 1
                if self.is_op(")"):
                    self.i += 1
                else:
                    body["argument"] = self.int_expr(k + " argument")
                    self.expect_op(")")
            st = {("jump" if k == "jump_sp" else k): body}
        elif k == "reset":
            st = {"reset": {}}
        elif k == "version_check":
            t2 = self.next()
            if t2.kind != "kw" or t2.val not in ("sec", "nsec"):
                raise BDSyntax("sec or nsec expected")
            st = {"version_check": {"ver_type": 0 if t2.val == "sec" else 1,
                                    "fw_version": self.int_expr("version")}}
        elif k in ("keystore_to_nv", "keystore_from_nv"):
            opt = self.mem_opt("mem_opt", k)
            body = dict(opt)
            body.update(self.address_or_range(k))
            st = {k: body}
        elif k == "keywrap":
            self.expect_op("(")
            kid = self.int_expr("keywrap keyblob id")
            self.expect_op(")")
            self.expect_op("{")
            if not self.is_kw("load"):
                raise Outside("keywrap body")
            self.i += 1
            blob = self.expect("blob").val
            self.expect_op(">")
            addr = self.int_expr("keywrap address")
            self.expect_op(";")
            self.expect_op("}")
            return {"keywrap": {"keyblob_id": kid, "address": addr, "values": blob}}
        elif k == "encrypt":
            self.expect_op("(")
            kid = self.int_expr("encrypt keyblob id")
            self.expect_op(")")
            self.expect_op("{")
            if not self.is_kw("load"):
                raise Outside("encrypt body")
            self.i += 1
            inner = self.load_body()
            self.expect_op(";")
            self.expect_op("}")
            body = {"keyblob_id": kid}
            body.update(list(inner.values())[0])
            return {"encrypt": body}
        else:
            raise BDSyntax(f"statement expected, found {t!r}")
        self.expect_op(";")
        return st


def evaluate_program(text: str, extern: Optional[list] = None) -> Program:
    """Expected parser result.  Raises Unsupported / BDSyntax; a program containing an expression
    the semantics does not define is returned with `.blocked` set (values then are placeholders
    and must not be compared; `.exprs` still lists every expression tree for the shift guard)."""
    p = _Prog(text, extern)
    p.pr.text = text
    try:
        return p.program()
    except (Unsupported, BDSyntax, Outside):
        if p.pr.blocked is not None:
            return p.pr       # everything after an undefined value is meaningless
        raise


# ---------------------------------------------------------------------------------------------
# statement -> boot command (what must be in the 16-byte command header and the payload)

TAGS = {"LOAD": 2, "FILL": 3, "JUMP": 4, "CALL": 5, "ERASE": 7, "RESET": 8, "MEM_ENABLE": 9,
        "PROG": 0xA, "FW_VERSION_CHECK": 0xB, "WR_KEYSTORE_TO_NV": 0xC, "WR_KEYSTORE_FROM_NV": 0xD}
U32 = 0xFFFFFFFF


def mem_flags(mem: int) -> int:
    return ((mem & 0xFF) << 8) | (((mem >> 8) & 0xF) << 4)


def resolve_mem(opt: Any) -> Optional[int]:
    if opt is None:
        return 0
    if isinstance(opt, bool):
        return None
    if isinstance(opt, int):
        return opt if 0 <= opt <= 0xFFF else None
    if isinstance(opt, str):
        return MEMORY_NAMES.get(opt)
    return None


def _u32(v: Any) -> bool:
    return isinstance(v, int) and not isinstance(v, bool) and 0 <= v <= U32


def crc32_mpeg2(data: bytes) -> int:
    crc = 0xFFFFFFFF
    for b in data:
        crc ^= b << 24
        for _ in range(8):
            crc = ((crc << 1) ^ 0x04C11DB7) & 0xFFFFFFFF if crc & 0x80000000 else (crc << 1) & 0xFFFFFFFF
    return crc


def expected_command(kind: str, a: dict, keyblobs: list, files: dict) -> Optional[dict]:
    """Specified header fields / payload of the single command a statement dictionary stands for.

    Returns None when the operands are outside the domain the model defines (no judgement).
    Keys of the result: tag, address, count, data, flags (each only when specified), payload
    (bytes the command data must start with), payload_len, note."""
    addr = a.get("address")
    if not _u32(addr):
        return None
    if kind == "fill":
        pat = a.get("pattern")
        if not _u32(pat):
            return None
        exp: dict = {"tag": TAGS["FILL"], "address": addr, "flags": 0}
        if pat >= 0x10000:
            exp["data"] = pat            # 3- and 4-byte patterns are words
        if "length" in a:
            ln = a["length"]
            if not _u32(ln) or ln == 0 or ln % 4:
                return None              # empty / unaligned ranges: the builder may refuse them
            exp["count"] = ln            # byte count of the range
        elif pat >= 0x10000:
            exp["count"] = 4
        return exp
    if kind == "load":
        mem = resolve_mem(a.get("load_opt"))
        if mem is None:
            return None
        if "file" in a:
            data = files.get(a["file"])
            if data is None:
                return None
            return {"tag": TAGS["LOAD"], "address": addr, "flags": mem_flags(mem), "payload": data}
        if "values" in a:
            try:
                blob = bytes.fromhex(a["values"])
            except (ValueError, TypeError):
                return None
            if mem == 4:
                if len(blob) == 4:
                    return {"tag": TAGS["PROG"], "address": addr, "count": int.from_bytes(blob, "little"),
                            "data": 0, "flags": 0x400}
                if len(blob) == 8:
                    w2 = int.from_bytes(blob[4:], "little")
                    exp = {"tag": TAGS["PROG"], "address": addr, "count": int.from_bytes(blob[:4], "little"),
                           "data": w2}
                    if w2:
                        exp["flags"] = 0x401
                    return exp
                return None
            return {"tag": TAGS["LOAD"], "address": addr, "flags": mem_flags(mem), "payload": blob}
        if "pattern" in a:
            pat = a["pattern"]
            if mem == 4 and _u32(pat) and pat != 0:
                return {"tag": TAGS["PROG"], "address": addr, "count": pat, "data": 0, "flags": 0x400}
            return None
        return None
    if kind == "erase":
        mem = resolve_mem(a.get("mem_opt"))
        ln = a.get("length", 0)
        fl = a.get("flags", 0)
        if mem is None or not _u32(ln) or fl not in (0, 1, 2):
            return None
        return {"tag": TAGS["ERASE"], "address": addr, "count": ln, "flags": fl | mem_flags(mem), "data": 0}
    if kind == "enable":
        mem = resolve_mem(a.get("mem_opt"))
        if mem is None:
            return None
        return {"tag": TAGS["MEM_ENABLE"], "address": addr, "count": 4, "flags": mem_flags(mem)}
    if kind == "jump":
        arg = a.get("argument", 0)
        if not _u32(arg):
            return None
        if "spreg" in a:
            if not _u32(a["spreg"]):
                return None
            return {"tag": TAGS["JUMP"], "address": addr, "data": arg, "flags": 2, "count": a["spreg"]}
        return {"tag": TAGS["JUMP"], "address": addr, "data": arg, "flags": 0, "count": 0}
    if kind == "call":
        arg = a.get("argument", 0)
        if not _u32(arg):
            return None
        return {"tag": TAGS["CALL"], "address": addr, "data": arg}
    if kind in ("keystore_to_nv", "keystore_from_nv"):
        if "mem_opt" not in a:
            return None
        mem = resolve_mem(a.get("mem_opt"))
        if mem is None or mem > 0xFF or "length" in a:
            return None
        return {"tag": TAGS["WR_KEYSTORE_TO_NV" if kind == "keystore_to_nv" else "WR_KEYSTORE_FROM_NV"],
                "address": addr, "flags": mem << 8}
    if kind in ("keywrap", "encrypt"):
        kb = [k for k in keyblobs if isinstance(k, dict) and k.get("keyblob_id") == a.get("keyblob_id")]
        if not kb:
            # the statement names a key blob NUMBER that no `keyblob (N)` block declares
            return {"refuse": f"key blob {a.get('keyblob_id')} is not declared"}
        if len(kb) != 1:
            return None
        ctx = keyblob_fields(kb[0])
        if ctx is None or "load_opt" in a:
            return None
        exp = {"tag": TAGS["LOAD"], "address": addr, "flags": 0, "keyblob": kb[0], "ctx": ctx}
        if kind == "keywrap":
            exp["payload_len"] = 64
            return exp
        if "file" in a:
            data = files.get(a["file"])
        elif "values" in a:
            try:
                data = bytes.fromhex(a["values"])
            except (ValueError, TypeError):
                data = None
        else:
            data = None
        if data is None:
            return None
        if ctx["end"] & 3 == 3:
            # valid context with decryption enabled: ciphertext of the payload padded to the
            # 512-byte image alignment ("all QSPI images generated by this tool will be sizes of
            # multiple 512", KeyBlob._IMAGE_ALIGNMENT)
            exp["encrypted"] = data
            exp["payload_len"] = (len(data) + 511) // 512 * 512
        else:
            # "Encrypt only if the ADE and VLD flags are set": otherwise a plain load of the operand
            exp["payload"] = data
        return exp
    return None


def keyblob_fields(kb: dict) -> Optional[dict]:
    """start / end / key / counter / byteSwap of a well-formed key blob definition, else None."""
    try:
        c = kb["keyblob_content"]
        if not isinstance(c, list) or len(c) != 1:
            return None
        c = c[0]
        start, end = c["start"], c["end"]
        key, ctr = bytes.fromhex(c["key"]), bytes.fromhex(c["counter"])
    except (KeyError, ValueError, TypeError):
        return None
    if not _u32(start) or not _u32(end) or start % 0x400 or start > end or len(key) != 16 or len(ctr) != 8:
        return None
    return {"start": start, "end": end, "key": key, "ctr": ctr, "byte_swap": bool(c.get("byteSwap", False))}


def expected_simple(kind: str, a: dict) -> Optional[dict]:
    """Statements without an address operand."""
    if kind == "reset":
        return {"tag": TAGS["RESET"]}
    if kind == "version_check":
        vt, fv = a.get("ver_type"), a.get("fw_version")
        if vt not in (0, 1) or not _u32(fv):
            return None
        return {"tag": TAGS["FW_VERSION_CHECK"], "address": vt, "count": fv}
    return None


def decode_command(raw: bytes) -> dict:
    """16-byte SB2 command header `<2BH3L` (checksum, tag, flags, address, count, data) + payload."""
    import struct

    if len(raw) < 16:
        raise ValueError("short command")
    cs, tag, flags, address, count, data = struct.unpack_from("<2BH3L", raw)
    ok = (0x5A + sum(raw[1:16])) & 0xFF == cs
    return {"checksum_ok": ok, "tag": tag, "flags": flags, "address": address, "count": count,
            "data": data, "payload": raw[16:]}


def selftest() -> None:
    env = {"c": 3}

    def ev(t):
        return eval_node(expr_tree(t), env)[0]

    assert ev("1 + 2 * 3") == 7 and ev("(1 + 2) * 3") == 9 and ev("2 * 3 + 1") == 7
    assert ev("10 - 3 - 2") == 5 and ev("100 / 10 / 5") == 2 and ev("7 % 4 * 2") == 6
    assert ev("1 << 2 + 1") == 8 and ev("1 + 1 << 2") == 8 and ev("0xF0 >> 4 & 3") == 3
    assert ev("1 | 2 ^ 3 & 4") == 3 and ev("6 & 3 | 8") == 10 and ev("6 ^ 3 & 1") == 7
    assert ev("-2 + 3") == 1 and ev("- 2 * 3") == -6 and ev("2 - -3") == 5 and ev("+c") == 3
    assert ev("0x155.b") == 0x55 and ev("0x12345.h") == 0x2345 and ev("0x1FFFFFFFF.w") == 0xFFFFFFFF
    assert ev("1 + 0x1FF.b") == 256 and ev("-0x1FF.b") == -255
    assert ev("1K") == 1024 and ev("'a'") == 97 and ev("'ab'") == 0x6162 and ev("true + yes") == 2
    assert ev("1 < 2 == 1") == 1 and ev("2 == 1 < 2") == 0 and ev("1 < 2 < 3") == 1 and ev("3 > 2 > 1") == 0
    assert ev("1 || 0 && 0") == 1 and ev("!1 == 0") == 1 and ev("!(1 == 0)") == 1 and ev("2 && 3") == 1
    assert ev("defined(c)") == 1 and ev("defined(d)") == 0 and ev("1 + 2 < 2 * 2") == 1
    for bad in ("1 / 0", "-7 / 2", "1 << 64", "1 << -1", "010", "7 % (1 - 2)"):
        try:
            ev(bad)
        except Excluded:
            continue
        raise AssertionError(bad)
    for bad in ("(1 < 2) + 3", "1 | 2 == 2", "nope + 1", "-!1"):
        try:
            ev(bad)
        except Outside:
            continue
        raise AssertionError(bad)
    pr = evaluate_program('''
        options { flags = 0x8; name = "a;b"; /* c */ } constants { A = 0x1000; B = A + 4 * 2; }
        sources { f = "x.bin"; g = extern(1); } // tail
        keyblob (B - A) { ( start = A, end = A + 1K, key = "00", counter = "11", byteSwap = false ) }
        section (0) { load f > A; load 0x55.b > A..B; load sdcard {{aa BB}} > 4; erase @8 all;
                      jump_sp 1 2 (3); keywrap (8) { load {{00}} > 5; } encrypt (8) { load g > A; } }
        section (1) { } # end''', ["e0", "e1"]).as_dict()
    assert pr["options"] == {"flags": 8, "name": "a;b"} and pr["sources"] == {"f": "x.bin", "g": "e1"}
    assert pr["keyblobs"] == [{"keyblob_id": 8, "keyblob_content": [
        {"start": 4096, "end": 5120, "key": "00", "counter": "11", "byteSwap": 0}]}]
    assert pr["sections"][0]["commands"] == [
        {"load": {"file": "x.bin", "address": 4096}},
        {"fill": {"pattern": 0x55, "address": 4096, "length": 8}},
        {"load": {"load_opt": "sdcard", "values": "aaBB", "address": 4}},
        {"erase": {"address": 0, "flags": 1, "mem_opt": 8}},
        {"jump": {"spreg": 1, "address": 2, "argument": 3}},
        {"keywrap": {"keyblob_id": 8, "address": 5, "values": "00"}},
        {"encrypt": {"keyblob_id": 8, "file": "e1", "address": 4096}}]
    assert pr["sections"][1] == {"section_id": 1, "commands": []}
    for txt in ("section (0) { if 1 { } }", "section (0; a = 1) { }", "sources { f = \"x\" (a = 1); }",
                "section (0) { load $a > 1; }", "options { a = sizeof(b); }", "section (0) { mode 1; }"):
        try:
            evaluate_program(txt)
        except Unsupported:
            continue
        raise AssertionError(txt)
    assert crc32_mpeg2(b"123456789") == 0x0376E6E7
    assert mem_flags(0x120) == 0x2010 and mem_flags(0x121) == 0x2110 and mem_flags(9) == 0x900


if __name__ == "__main__":
    selftest()
    print("bd_sem selftest ok")
