"""Independent references for hashes, HMAC (RFC 2104), HKDF (RFC 5869), SM3 (GB/T 32905), the
SB3.1 CMAC counter-mode KDF and the RT5xx/RT6xx key-store derivations.

* SHA-1/SHA-2/MD5: CPython's built-in HACL* modules (`_sha1`, `_sha2`, `_md5`) when they exist -
  a code base unrelated to the OpenSSL that `cryptography` links - else `hashlib`.
* HMAC and HKDF are written out from the RFCs on top of those hash functions.
* SM3 is pure Python from the standard.
* The SB3.1 KDF is written from the format description (DESIGN.md section 28):
      KDF(key, constant, mode, rights, bits) = CMAC_key(D(1)) [ || CMAC_key(D(2)) for 256 bit ]
      D(i) = LE96(constant) || 0^8 || (rights << 6) || (01 KDK | 10 BLK) || 00 || (20 | 21)
             || BE32(bits) || BE32(i)
  with CMAC from vf.ref.aes, and calibrated on the golden values NXP ships in
  tests/sbfile/sb31/test_functions.py (selftest).
* Key-store derivations (RT5xx/RT6xx boot ROM, DESIGN.md section 28 "MBI"): AES-256-ECB under
  the OTP master key / user key of fixed 16- or 32-byte constants:
      HMAC key        = E(k, 0^16)
      image enc. key  = E(k, 01 0^15 || 02 0^15)
      SB KEK          = E(k, 03 0^15 || 04 0^15)
      OTFAD KEK       = E(k, 16-byte OTFAD KEK seed)
"""
from __future__ import annotations

import hashlib
import struct

from vf.ref import aes as _aes

# ---------------------------------------------------------------------------------------------
# hash functions


def _builtin_hashes() -> dict:
    out = {}
    try:
        import _sha1

        out["sha1"] = _sha1.sha1
    except ImportError:
        pass
    try:
        import _sha2

        out["sha256"], out["sha384"], out["sha512"] = _sha2.sha256, _sha2.sha384, _sha2.sha512
    except ImportError:
        try:
            import _sha256
            import _sha512

            out["sha256"], out["sha384"], out["sha512"] = _sha256.sha256, _sha512.sha384, _sha512.sha512
        except ImportError:
            pass
    try:
        import _md5

        out["md5"] = _md5.md5
    except ImportError:
        pass
    return out


_BUILTIN = _builtin_hashes()
BLOCK_SIZE = {"sha1": 64, "sha256": 64, "sha384": 128, "sha512": 128, "md5": 64, "sm3": 64}
DIGEST_SIZE = {"sha1": 20, "sha256": 32, "sha384": 48, "sha512": 64, "md5": 16, "sm3": 32}


def _rotl(x: int, n: int) -> int:
    n %= 32
    return ((x << n) | (x >> (32 - n))) & 0xFFFFFFFF


def sm3(data: bytes) -> bytes:
    """GB/T 32905-2016."""
    v = [0x7380166F, 0x4914B2B9, 0x172442D7, 0xDA8A0600, 0xA96F30BC, 0x163138AA, 0xE38DEE4D, 0xB0FB0E4E]
    msg = data + b"\x80" + bytes((55 - len(data)) % 64) + struct.pack(">Q", 8 * len(data))
    for off in range(0, len(msg), 64):
        w = list(struct.unpack(">16I", msg[off:off + 64]))
        for j in range(16, 68):
            x = w[j - 16] ^ w[j - 9] ^ _rotl(w[j - 3], 15)
            w.append(x ^ _rotl(x, 15) ^ _rotl(x, 23) ^ _rotl(w[j - 13], 7) ^ w[j - 6])
        a, b, c, d, e, f, g, h = v
        for j in range(64):
            t = 0x79CC4519 if j < 16 else 0x7A879D8A
            ss1 = _rotl((_rotl(a, 12) + e + _rotl(t, j)) & 0xFFFFFFFF, 7)
            ss2 = ss1 ^ _rotl(a, 12)
            if j < 16:
                ff, gg = a ^ b ^ c, e ^ f ^ g
            else:
                ff, gg = (a & b) | (a & c) | (b & c), (e & f) | (~e & g & 0xFFFFFFFF)
            tt1 = (ff + d + ss2 + (w[j] ^ w[j + 4])) & 0xFFFFFFFF
            tt2 = (gg + h + ss1 + w[j]) & 0xFFFFFFFF
            d, c, b, a = c, _rotl(b, 9), a, tt1
            h, g, f, e = g, _rotl(f, 19), e, tt2 ^ _rotl(tt2, 9) ^ _rotl(tt2, 17)
        v = [x ^ y for x, y in zip(v, (a, b, c, d, e, f, g, h))]
    return struct.pack(">8I", *v)


def digest(name: str, data: bytes) -> bytes:
    if name == "sm3":
        return sm3(data)
    fn = _BUILTIN.get(name)
    if fn is not None:
        return fn(data).digest()
    return hashlib.new(name, data).digest()


def hmac(name: str, key: bytes, data: bytes) -> bytes:
    """RFC 2104."""
    bs = BLOCK_SIZE[name]
    if len(key) > bs:
        key = digest(name, key)
    key = key + bytes(bs - len(key))
    ipad = bytes(b ^ 0x36 for b in key)
    opad = bytes(b ^ 0x5C for b in key)
    return digest(name, opad + digest(name, ipad + data))


def hkdf_extract(salt: bytes, ikm: bytes, name: str = "sha256") -> bytes:
    """RFC 5869 2.2 (an absent/empty salt is HashLen zero bytes)."""
    if not salt:
        salt = bytes(DIGEST_SIZE[name])
    return hmac(name, salt, ikm)


def hkdf_expand(prk: bytes, info: bytes, length: int, name: str = "sha256") -> bytes:
    """RFC 5869 2.3."""
    hl = DIGEST_SIZE[name]
    if length > 255 * hl:
        raise ValueError("HKDF: L > 255*HashLen")
    okm, t, i = b"", b"", 0
    while len(okm) < length:
        i += 1
        t = hmac(name, prk, t + info + bytes([i]))
        okm += t
    return okm[:length]


def hkdf(salt: bytes, ikm: bytes, info: bytes, length: int, name: str = "sha256") -> bytes:
    return hkdf_expand(hkdf_extract(salt, ikm, name), info, length, name)


# ---------------------------------------------------------------------------------------------
# SB 3.1 key derivation

SB31_MODE_KDK = 1
SB31_MODE_BLK = 2


def sb31_kdf_data(constant: int, rights: int, mode: int, bits: int, iteration: int) -> bytes:
    if not 0 <= constant < 1 << 96 or rights not in (0, 1, 2, 3) or bits not in (128, 256) or \
            mode not in (SB31_MODE_KDK, SB31_MODE_BLK):
        raise ValueError("outside the SB3.1 KDF domain")
    return (constant.to_bytes(12, "little") + bytes(8) + bytes([rights << 6])
            + (b"\x01" if mode == SB31_MODE_KDK else b"\x10") + b"\x00"
            + (b"\x20" if bits == 128 else b"\x21") + struct.pack(">II", bits, iteration))


def sb31_kdf(key: bytes, constant: int, rights: int, mode: int, bits: int) -> bytes:
    c = _aes.AES(key)
    out = _aes.cmac(c, sb31_kdf_data(constant, rights, mode, bits, 1))
    if bits == 256:
        out += _aes.cmac(c, sb31_kdf_data(constant, rights, mode, bits, 2))
    return out


def sb31_derive_kdk(pck: bytes, timestamp: int, bits: int, rights: int) -> bytes:
    return sb31_kdf(pck, timestamp, rights, SB31_MODE_KDK, bits)


def sb31_derive_block_key(kdk: bytes, block_number: int, bits: int, rights: int) -> bytes:
    return sb31_kdf(kdk, block_number, rights, SB31_MODE_BLK, bits)


# ---------------------------------------------------------------------------------------------
# RT5xx / RT6xx key store derivations


def _lane(n: int) -> bytes:
    return bytes([n]) + bytes(15)


def ks_hmac_key(key: bytes) -> bytes:
    _need(key, 32)
    return _aes.aes_ecb_encrypt(key, bytes(16))


def ks_enc_image_key(master_key: bytes) -> bytes:
    _need(master_key, 32)
    return _aes.aes_ecb_encrypt(master_key, _lane(1) + _lane(2))


def ks_sb_kek(master_key: bytes) -> bytes:
    _need(master_key, 32)
    return _aes.aes_ecb_encrypt(master_key, _lane(3) + _lane(4))


def ks_otfad_kek(master_key: bytes, otfad_input: bytes) -> bytes:
    _need(master_key, 32)
    _need(otfad_input, 16)
    return _aes.aes_ecb_encrypt(master_key, otfad_input)


def _need(b: bytes, n: int) -> None:
    if len(b) != n:
        raise ValueError(f"needs {n} bytes")


# ---------------------------------------------------------------------------------------------


def selftest() -> None:
    h = bytes.fromhex
    # FIPS 180 / RFC 1321 "abc"
    assert digest("sha1", b"abc").hex() == "a9993e364706816aba3e25717850c26c9cd0d89d"
    assert digest("sha256", b"abc").hex() == "ba7816bf8f01cfea414140de5dae2223b00361a396177a9cb410ff61f20015ad"
    assert digest("sha384", b"abc").hex().startswith("cb00753f45a35e8bb5a03d699ac65007272c32ab0eded163")
    assert digest("sha512", b"abc").hex().startswith("ddaf35a193617abacc417349ae20413112e6fa4e89a97ea2")
    assert digest("md5", b"abc").hex() == "900150983cd24fb0d6963f7d28e17f72"
    # GB/T 32905 examples 1 and 2
    assert sm3(b"abc").hex() == "66c7f0f462eeedd9d1f2d46bdc10e4e24167c4875cf2f7a2297da02b8f4ba8e0"
    assert sm3(b"abcd" * 16).hex() == "debe9ff92275b8a138604889c18e5a4d6fdb70e5387e5765293dcba39c0c5732"
    # RFC 4231 test cases 1, 2, 6 (key longer than the block)
    assert hmac("sha256", b"\x0b" * 20, b"Hi There").hex() == \
        "b0344c61d8db38535ca8afceaf0bf12b881dc200c9833da726e9376c2e32cff7"
    assert hmac("sha256", b"Jefe", b"what do ya want for nothing?").hex() == \
        "5bdcc146bf60754e6a042426089575c75a003f089d2739839dec58b964ec3843"
    assert hmac("sha256", b"\xaa" * 131, b"Test Using Larger Than Block-Size Key - Hash Key First").hex() == \
        "60e431591ee0b67f0d8a26aacbf5b77f8e0bc6213728c5140546040f0ee37f54"
    assert hmac("sha512", b"Jefe", b"what do ya want for nothing?").hex().startswith("164b7a7bfcf819e2e395fbe73b56e0a3")
    # RFC 2202 (HMAC-SHA1, HMAC-MD5) test case 2
    assert hmac("sha1", b"Jefe", b"what do ya want for nothing?").hex() == "effcdf6ae5eb2fa2d27416d5f184df9c259a7c79"
    assert hmac("md5", b"Jefe", b"what do ya want for nothing?").hex() == "750c783e6ab0b503eaa86e310a5db738"
    # RFC 5869 A.1, A.2 (first 16 bytes), A.3
    assert hkdf(h("000102030405060708090a0b0c"), b"\x0b" * 22, h("f0f1f2f3f4f5f6f7f8f9"), 42).hex() == \
        "3cb25f25faacd57a90434f64d0362f2a2d2d0a90cf1a5a4c5db02d56ecc4c5bf34007208d5b887185865"
    assert hkdf(bytes(range(0x60, 0xB0)), bytes(range(0x50)), bytes(range(0xB0, 0x100)), 82).hex().startswith(
        "b11e398dc80327a1c8e7f78c596a4934")
    assert hkdf(b"", b"\x0b" * 22, b"", 42).hex() == \
        "8da4e775a563c18f715f802a063c5a31b8a11f5c5ee1879ec3454e5f3c738d2d9d201395faa4b61a96c8"
    # SB3.1 KDF: golden values shipped by NXP (tests/sbfile/sb31/test_functions.py::test_key_derivator)
    pck = h("24e517d4ac417737235b6efc9afced8224e517d4ac417737235b6efc9afced82")
    kdk = sb31_derive_kdk(pck, 0x27C0E97C, 128, 3)
    assert kdk.hex() == "751d0802bc9eb9adb42b68d40880aa6e", "SB3.1 KDK golden"
    assert sb31_derive_block_key(kdk, 10, 128, 3).hex() == "40902f79dd0ec371307f7069590ad07a"
    assert sb31_derive_block_key(kdk, 13, 128, 3).hex() == "69362b5634b99b689a7c43df76f15b63"
    assert sb31_derive_block_key(kdk, 6, 128, 3).hex() == "4c28803b5de193c21f31e6fa10c76b03"


if __name__ == "__main__":
    selftest()
    print("selftest ok; builtin hash modules:", sorted(_BUILTIN))
