"""Reference model of the i.MX ROM serial download protocol (SDP), written from the protocol
definition: 16-byte big-endian command `>H I B I I B` (tag, address, format, count, value,
reserved); every command is answered with a 4-byte HAB status word (0x56787856 open /
0x12343412 closed), followed by the data (READ_REGISTER), a 4-byte completion word
(WRITE_REGISTER 0x128A8A12, WRITE_FILE 0x88888888, WRITE_DCD/CSF 0x128A8A12, SKIP_DCD_HEADER
0x900DD009, ERROR_STATUS = error code) or nothing (JUMP_ADDRESS).  Over USB-HID the host sends
report 1 (command) / report 2 (data, fixed size, zero padded) and receives report 3 (HAB status,
4 bytes) / report 4 (data or completion word, 64 bytes).  No spsdk imports.
"""
from __future__ import annotations

import struct

READ_REGISTER, WRITE_REGISTER, WRITE_FILE, ERROR_STATUS = 0x0101, 0x0202, 0x0404, 0x0505
WRITE_CSF, WRITE_DCD, SKIP_DCD, JUMP = 0x0606, 0x0A0A, 0x0C0C, 0x0B0B
UNLOCKED, LOCKED = 0x56787856, 0x12343412
WRITE_DATA_OK, WRITE_FILE_OK, SKIP_OK = 0x128A8A12, 0x88888888, 0x900DD009
MEM_SIZE = 0x2000


class SdpCore:
    def __init__(self, locked: bool = False, fail_writes: bool = False):
        self.mem = bytearray((i * 5 + 1) & 0xFF for i in range(MEM_SIZE))
        self.locked = locked
        self.fail_writes = fail_writes
        self.effects: list = []
        self.errors: list[str] = []
        self.din = None  # running host->device data phase: {"tag", "addr", "len", "buf"}

    def hab(self) -> bytes:
        return struct.pack(">I", LOCKED if self.locked else UNLOCKED)

    def command(self, pkt: bytes) -> list:
        """Returns list of ("hab", 4 bytes) | ("data", bytes)."""
        if self.din is not None:
            self.errors.append("command received while a data phase is running")
            self.din = None
        if len(pkt) != 16:
            self.errors.append(f"command of {len(pkt)} bytes")
            return []
        tag, addr, fmt, count, value, rsvd = struct.unpack(">HIBIIB", pkt)
        if tag == READ_REGISTER:
            if fmt not in (8, 16, 32):
                self.errors.append(f"read with format {fmt}")
            data = bytes(self.mem[addr:addr + count]) if addr + count <= MEM_SIZE else bytes(count)
            self.effects.append(("read", addr, count))
            return [("hab", self.hab()), ("data", data)]
        if tag == WRITE_REGISTER:
            ok = not self.fail_writes and fmt in (8, 16, 32) and addr + count <= MEM_SIZE and count in (1, 2, 4)
            if ok:
                self.mem[addr:addr + count] = struct.pack("<I", value)[:count]
                self.effects.append(("write_reg", addr, value, count))
            return [("hab", self.hab()), ("word", struct.pack(">I", WRITE_DATA_OK if ok else 0xBADBAD00))]
        if tag in (WRITE_FILE, WRITE_DCD, WRITE_CSF):
            if count == 0:
                self.errors.append("data command with count 0")
                return [("hab", self.hab()), ("word", struct.pack(">I", 0xBADBAD01))]
            self.din = {"tag": tag, "addr": addr, "len": count, "buf": b""}
            return []
        if tag == ERROR_STATUS:
            return [("hab", self.hab()), ("data", struct.pack(">I", 0))]
        if tag == SKIP_DCD:
            self.effects.append(("skip_dcd",))
            return [("hab", self.hab()), ("word", struct.pack(">I", SKIP_OK))]
        if tag == JUMP:
            self.effects.append(("jump", addr))
            return [("hab", self.hab())]
        self.errors.append(f"unknown command tag {tag:#x}")
        return []

    def data_in(self, chunk: bytes) -> list:
        d = self.din
        if d is None:
            self.errors.append("data outside a data phase")
            return []
        need = d["len"] - len(d["buf"])
        d["buf"] += chunk[:need]
        if len(d["buf"]) >= d["len"]:
            self.din = None
            ok = not self.fail_writes and d["addr"] + d["len"] <= MEM_SIZE
            if ok:
                self.mem[d["addr"]:d["addr"] + d["len"]] = d["buf"]
                self.effects.append(("write_" + {WRITE_FILE: "file", WRITE_DCD: "dcd", WRITE_CSF: "csf"}[d["tag"]], d["addr"], d["buf"]))
            okw = WRITE_FILE_OK if d["tag"] == WRITE_FILE else WRITE_DATA_OK
            return [("hab", self.hab()), ("word", struct.pack(">I", okw if ok else 0xBADBAD02))]
        return []


class SdpSerialLink:
    """Raw byte stream, no framing: 16-byte commands, then `count` data bytes for the write commands."""

    def __init__(self, core: SdpCore):
        self.core = core
        self.out = bytearray()
        self.rx = bytearray()
        self.frames_sent: list[tuple] = []

    def _emit(self, items: list) -> None:
        for kind, b in items:
            self.frames_sent.append((len(self.out), "status" if kind in ("hab", "word") else "data", len(b)))
            self.out += b

    def host_write(self, data: bytes) -> None:
        self.rx += data
        while self.rx:
            if self.core.din is not None:
                need = self.core.din["len"] - len(self.core.din["buf"])
                chunk = bytes(self.rx[:need])
                del self.rx[:need]
                self._emit(self.core.data_in(chunk))
                continue
            if len(self.rx) < 16:
                return
            pkt = bytes(self.rx[:16])
            del self.rx[:16]
            self._emit(self.core.command(pkt))


class SdpHidLink:
    CMD_REPORT_SIZE = 16
    DATA_REPORT_SIZE = 1024
    lenient = False   # True: reports may be shorter than the full size (never longer) - used for histories in which an
                      # SDPS transfer re-negotiated the report size of the process before (C10 statement: "no larger than")

    def __init__(self, core: SdpCore):
        self.core = core
        self.out: list[bytes] = []
        self.kinds: list[str] = []  # kind of the item each report belongs to (first report of multi-report data only)

    def _emit(self, items: list) -> None:
        for kind, b in items:
            self.kinds.append(kind)
            if kind == "hab":
                self.out.append(bytes([3]) + b)
            else:
                for i in range(0, max(len(b), 1), 64):
                    chunk = b[i:i + 64]
                    self.out.append(bytes([4]) + chunk + bytes(64 - len(chunk)))

    def host_write(self, data: bytes) -> int:
        rid = data[0] if data else -1
        if rid == 1:
            if (len(data) != 1 + self.DATA_REPORT_SIZE and not (self.lenient and 17 <= len(data) <= 1 + self.DATA_REPORT_SIZE)) or any(data[17:]):
                self.core.errors.append(f"command report of {len(data)} bytes / non-zero padding")
            self._emit(self.core.command(bytes(data[1:17])))
        elif rid == 2:
            if len(data) != 1 + self.DATA_REPORT_SIZE and not (self.lenient and 2 <= len(data) <= 1 + self.DATA_REPORT_SIZE):
                self.core.errors.append(f"data report of {len(data)} bytes")
            if self.core.din is None:
                self.core.errors.append("data report outside a data phase")
            else:
                self._emit(self.core.data_in(bytes(data[1:])))
        else:
            self.core.errors.append(f"unknown report id {rid}")
        return len(data)


# ---------------------------------------------------------------------------------------------
# SDPS (the "secure" serial downloader of i.MX28 / i.MX8 / i.MX9: one firmware-download transfer)
#
# Written from the protocol description: the host configures the HID report size of the ROM
# (1024 or 1020 payload bytes).  ROMs with a command phase (i.MX28) first receive report 1 with a
# 31-byte command block wrapper: `<I` signature "BLTC", `<I` tag, `<I` transfer length, `B` flags
# (0 = host to device), 2 reserved bytes, then the 16-byte command descriptor: `B` command
# (2 = firmware download), `>I` length, reserved.  The data follow in reports with id 2, every
# report full size, the last one zero padded.  ROMs without a command phase receive the data
# reports only (the container is self-describing).  Nothing is sent back.

BLTC = 0x43544C42


class SdpsDev:
    def __init__(self, no_cmd: bool, pack_size: int):
        self.no_cmd = no_cmd
        self.pack_size = pack_size
        self.cbw = None
        self.data = bytearray()
        self.reports: list[tuple] = []   # (report id, payload length)
        self.errors: list[str] = []
        self.fail_at = None              # (index of the host report, kind) - the USB stack refuses that report
        self.n = 0

    def host_write(self, data: bytes) -> int:
        i = self.n
        self.n += 1
        if self.fail_at is not None and self.fail_at[0] == i:
            kind = self.fail_at[1]
            if kind == "raise":
                raise OSError("HID write failed")
            return -1 if kind == "neg" else max(0, len(data) - 1)   # nothing of a refused report reaches the ROM
        if not data:
            self.errors.append("empty report")
            return 0
        rid, payload = data[0], bytes(data[1:])
        self.reports.append((rid, len(payload)))
        if len(payload) > self.pack_size:
            self.errors.append(f"report with {len(payload)} payload bytes, negotiated size {self.pack_size}")
        if rid == 1:
            if self.no_cmd:
                self.errors.append("command report sent to a ROM without command phase")
            elif self.cbw is not None or self.data:
                self.errors.append("second command block / command after data")
            else:
                if len(payload) < 31:
                    self.errors.append(f"command block of {len(payload)} bytes")
                else:
                    sig, tag, xfer, flags = struct.unpack_from("<3IB", payload, 0)
                    cmd = payload[15]
                    (belen,) = struct.unpack_from(">I", payload, 16)
                    self.cbw = {"sig": sig, "tag": tag, "xfer": xfer, "flags": flags, "cmd": cmd, "belen": belen}
                    if any(payload[31:]):
                        self.errors.append("non-zero bytes behind the command block")
        elif rid == 2:
            if not self.no_cmd and self.cbw is None:
                self.errors.append("data report before the command block")
            if len(payload) != self.pack_size:
                self.errors.append(f"data report with {len(payload)} payload bytes instead of {self.pack_size}")
            self.data += payload
        else:
            self.errors.append(f"unknown report id {rid}")
        return len(data)
