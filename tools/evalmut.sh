#!/bin/bash
# tools/evalmut.sh <Cxx> <patch.diff> [demo.py]  — evaluate a seeded change WITHOUT touching /repo:
# fresh worktree of /repo HEAD under /tmp, apply patch, run demo (must FAIL), run the check with
# VERIF_REPO=<worktree> (must print VIOLATION), remove worktree.
set -u
pid="$1"; patch="$(realpath "$2")"; demo="${3:-}"
wt="/tmp/evalmut-$$"
git -C /repo worktree add -q "$wt" HEAD || exit 2
trap 'git -C /repo worktree remove --force "$wt" >/dev/null 2>&1; rm -f /tmp/evalmut-demo-*-$$.log' EXIT
cp /repo/spsdk/__version__.py "$wt/spsdk/__version__.py"   # generated, git-ignored file the package needs
if [ -n "$demo" ]; then
  mkdir -p "$wt/_out/x" && cp "$(realpath "$demo")" "$wt/_out/x/demo.py" && demo="$wt/_out/x/demo.py"   # demos may locate the tree relative to themselves
  ( cd "$wt" && PYTHONPATH="$wt" SPSDK_CACHE_FOLDER="$wt/_cache" timeout 600 /venv/bin/python "$demo" >/tmp/evalmut-demo-base-$$.log 2>&1 ); echo "demo on HEAD: rc=$? ($(tail -1 /tmp/evalmut-demo-base-$$.log))"
fi
git -C "$wt" apply "$patch" || { echo "PATCH DOES NOT APPLY"; exit 2; }
if [ -n "$demo" ]; then
  ( cd "$wt" && PYTHONPATH="$wt" SPSDK_CACHE_FOLDER="$wt/_cache" timeout 600 /venv/bin/python "$demo" >/tmp/evalmut-demo-mut-$$.log 2>&1 ); echo "demo with change: rc=$? ($(tail -1 /tmp/evalmut-demo-mut-$$.log))"
fi
cd /verif
VERIF_REPO="$wt" VERIF_WORK="/verif/.work/mut-$$" VERIF_OUT_DIR="/verif/.work/mut-$$/out" ./check "$pid" --tier "${TIER:-quick}" 2>&1 | grep -v "^ERROR" | grep -E "^VIOLATION|clause=|^\[|HARNESS|KNOWN" | cut -c1-260 | head -${LINES_MAX:-14}
rm -rf "/verif/.work/mut-$$"
