#!/bin/bash
# tools/runall.sh [tier] [seed] [outdir]  - run every registered check once, sequentially; print one line per check.
# With outdir the evidence/replays go there (committed evidence stays untouched); without, /verif/evidence is rewritten.
tier="${1:-quick}"; seed="${2:-0}"; out="${3:-}"
cd "$(dirname "$0")/.."
fail=0
for c in C01 C02 C03 C04 C05 C06 C07 C08 C09 C10 C11 C12 C13 C14 C15 C16 C17 C18 C19 C20; do
  log="/var/tmp/vf/runall_${tier}_${seed}_$c.log"
  if [ -n "$out" ]; then VERIF_SEED=$seed VERIF_OUT_DIR="$out" ./check $c --tier "$tier" >"$log" 2>&1; else VERIF_SEED=$seed ./check $c --tier "$tier" >"$log" 2>&1; fi
  rc=$?
  nv=$(grep -c "^VIOLATION" "$log"); nk=$(grep -c "^KNOWN-FINDING" "$log")
  echo "$c rc=$rc violations_lines=$nv known=$nk :: $(grep -E "^\[$c\]" "$log" | tail -1)"
  [ $rc -ne 0 ] && fail=1
done
exit $fail
