#!/bin/bash
# tools/keep4.sh <Cxx> <a|b> <yes|after-strengthening> "<firing clause>" <needs to manifest ...>   (fourth round; next free seed id)
p="$1"; v="$2"; det="$3"; clause="$4"; shift 4
cd "$(dirname "$0")/.."
n=1; while [ -d "seeded/$p-$n" ]; do n=$((n+1)); done
SUITE_RERUN=1 python3 tools/keepseed.py "$p-$n" "$p" "/tmp/mut4-$p/_out/$v" "$det" "$clause" "$@"
