#!/bin/bash
# tools/evalsuite.sh <patch.diff> [nproc] - run the repository's own suite on a fresh worktree of /repo HEAD with the patch
# applied; prints SUITE-OK when the counts equal those of the unchanged tree (6 failed, 2845 passed, 59 skipped, 6 xpassed).
set -u
patch="$(realpath "$1")"; n="${2:-6}"
wt="/tmp/evalsuite-$$"
git -C /repo worktree add -q "$wt" HEAD || exit 2
trap 'git -C /repo worktree remove --force "$wt" >/dev/null 2>&1' EXIT
cp /repo/spsdk/__version__.py "$wt/spsdk/__version__.py"
git -C "$wt" apply "$patch" || { echo "PATCH DOES NOT APPLY"; exit 2; }
log="/var/tmp/vf/suite_$$.log"
( cd "$wt" && SPSDK_CACHE_FOLDER="$wt/_cache" /venv/bin/python -m pytest -q -p no:cacheprovider --timeout=900 --continue-on-collection-errors -n "$n" >"$log" 2>&1 )
tail -1 "$log"
grep -q "6 failed, 2845 passed, 59 skipped, 6 xpassed" "$log" && echo SUITE-OK || { echo SUITE-DIFFERS; grep -E "^FAILED|^ERROR" "$log" | head -20; exit 1; }
