#!/usr/bin/env python3
"""Generate /verif/MANIFEST.json from the table below (kept in one place so it stays valid)."""
import json, os, sys
HERE = os.path.dirname(os.path.dirname(os.path.abspath(__file__)))
sys.path.insert(0, HERE)
from vf.manifest_table import CHECKS, NOT_APPLICABLE, ENGINES, FIX_COMMITS  # noqa

import subprocess
try:
    FIX_COMMITS = subprocess.check_output(["git", "-C", "/repo", "log", "--reverse", "--format=%h %s", "--grep=^fix:"], text=True).strip().splitlines()
    FIX_COMMITS = [l.split()[0] for l in FIX_COMMITS if l.split(" ", 1)[1].startswith("fix:")]
except Exception:
    pass
props = [json.loads(l) for l in open(os.path.join(HERE, "properties.jsonl"))]
ids = [p["id"] for p in props]
checks = []
for pid in ids:
    if pid not in CHECKS:
        continue
    c = CHECKS[pid]
    checks.append({
        "property_id": pid,
        "quick_cmd": f"./check {pid} --tier quick",
        "thorough_cmd": f"./check {pid} --tier thorough",
        "evidence_file": f"/verif/evidence/{pid}.json",
        "replay_cmd_template": f"./check {pid} --replay {{path}}",
        "engine": c["engine"],
        "level_claimed": {"category": c["level"], "text": c["text"], "design_ref": c["design_ref"]},
        "level_note": c["note"],
        "technique": c["technique"],
    })
na = [{"property_id": pid, "reason": NOT_APPLICABLE.get(pid, "check not built yet in this session (see DESIGN.md build order); not claimed")}
      for pid in ids if pid not in CHECKS]
m = {
    "version": 1,
    "setup_cmd": "/venv/bin/python -m vf.selftest",
    "hooks": {"guard": "SPSDK_VERIF", "enable": "none: no hooks in /repo; all seams are harness-side patches of library entry points (DESIGN 1.2/1.3)",
              "baseline_off_cmd": "cd /repo && /venv/bin/python -m pytest -ra -q -p no:cacheprovider --timeout=900 --continue-on-collection-errors",
              "source_commits": [], "add_only": True},
    "engines": ENGINES,
    "checks": checks,
    "not_applicable": na,
    "notes": "fix: commits in /repo (genuine defects repaired, listed as fixed in known_findings.json): " + ", ".join(FIX_COMMITS),
}
json.dump(m, open(os.path.join(HERE, "MANIFEST.json"), "w"), indent=1)
print("checks:", [c["property_id"] for c in checks], "not claimed:", [n["property_id"] for n in na])
