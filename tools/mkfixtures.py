#!/venv/bin/python
"""Generate the committed key/certificate fixture pool (DESIGN §1.6) with `cryptography` only
(no SPSDK code).  Run once: /venv/bin/python tools/mkfixtures.py ; output /verif/fixtures/.

keys/<name>.pem (private PKCS8), <name>.pub.pem, <name>.der (private), <name>.pub.der
keys/index.json : numbers of every key
certs/...       : X.509 v3 certificates (self-signed CA / non-CA roots, chains)
hab/...         : HAB PKI (SRK CA, CSF, IMG certificates + keys)
"""
import datetime
import json
import os

from cryptography import x509
from cryptography.hazmat.primitives import hashes, serialization
from cryptography.hazmat.primitives.asymmetric import ec, rsa
from cryptography.x509.oid import NameOID

OUT = os.path.join(os.path.dirname(os.path.dirname(os.path.abspath(__file__))), "fixtures")
os.makedirs(OUT + "/keys", exist_ok=True)
os.makedirs(OUT + "/certs", exist_ok=True)
os.makedirs(OUT + "/hab", exist_ok=True)

index = {}
KEYS = {}


def save_key(name, key):
    KEYS[name] = key
    priv_pem = key.private_bytes(serialization.Encoding.PEM, serialization.PrivateFormat.PKCS8, serialization.NoEncryption())
    priv_der = key.private_bytes(serialization.Encoding.DER, serialization.PrivateFormat.PKCS8, serialization.NoEncryption())
    pub = key.public_key()
    pub_pem = pub.public_bytes(serialization.Encoding.PEM, serialization.PublicFormat.SubjectPublicKeyInfo)
    pub_der = pub.public_bytes(serialization.Encoding.DER, serialization.PublicFormat.SubjectPublicKeyInfo)
    for ext, data in ((".pem", priv_pem), (".der", priv_der), (".pub.pem", pub_pem), (".pub.der", pub_der)):
        open(f"{OUT}/keys/{name}{ext}", "wb").write(data)
    if isinstance(key, rsa.RSAPrivateKey):
        n = pub.public_numbers()
        p = key.private_numbers()
        index[name] = {"type": "rsa", "bits": key.key_size, "n": hex(n.n), "e": n.e, "d": hex(p.d)}
    else:
        n = pub.public_numbers()
        index[name] = {"type": "ecc", "curve": key.curve.name, "bits": key.curve.key_size,
                       "x": hex(n.x), "y": hex(n.y), "d": hex(key.private_numbers().private_value)}


for bits, cnt in ((2048, 5), (3072, 4), (4096, 4)):
    for i in range(cnt):
        save_key(f"rsa{bits}_{i}", rsa.generate_private_key(65537, bits))

CURVES = {"p256": ec.SECP256R1(), "p384": ec.SECP384R1(), "p521": ec.SECP521R1()}
for cname, curve in CURVES.items():
    size = (curve.key_size + 7) // 8
    n_plain = 4 if cname != "p521" else 2
    for i in range(n_plain):
        save_key(f"{cname}_{i}", ec.generate_private_key(curve))
    # one key whose X, one whose Y has a leading zero byte (deterministic scalar search)
    found = {}
    k = 2
    while len(found) < 2:
        key = ec.derive_private_key(k, curve)
        pn = key.public_key().public_numbers()
        top = 8 * (size - 1) if cname != "p521" else 8 * (size - 1) - 7  # p521: top byte has 1 bit
        if "x0" not in found and pn.x >> (8 * (size - 1)) == 0 and cname != "p521":
            found["x0"] = key
        elif "y0" not in found and pn.y >> (8 * (size - 1)) == 0 and cname != "p521":
            found["y0"] = key
        elif cname == "p521":
            if "x0" not in found and pn.x >> (8 * (size - 1)) == 0:
                found["x0"] = key
            elif "y0" not in found and pn.y >> (8 * (size - 1)) == 0:
                found["y0"] = key
        k += 1
    save_key(f"{cname}_x0", found["x0"])
    save_key(f"{cname}_y0", found["y0"])

json.dump(index, open(f"{OUT}/keys/index.json", "w"), indent=1, sort_keys=True)

# ---------------------------------------------------------------------------------------------
NB = datetime.datetime(2020, 1, 1)
NA = datetime.datetime(2070, 1, 1)


def name(cn):
    return x509.Name([x509.NameAttribute(NameOID.COMMON_NAME, cn), x509.NameAttribute(NameOID.ORGANIZATION_NAME, "verif")])


def mkcert(subject_cn, subject_key, issuer_cn, issuer_key, ca, serial, path_len=None, hash_alg=None):
    b = (x509.CertificateBuilder().subject_name(name(subject_cn)).issuer_name(name(issuer_cn))
         .public_key(subject_key.public_key()).serial_number(serial).not_valid_before(NB).not_valid_after(NA)
         .add_extension(x509.BasicConstraints(ca=ca, path_length=path_len if ca else None), critical=True))
    if ca:
        b = b.add_extension(x509.KeyUsage(digital_signature=True, content_commitment=False, key_encipherment=False,
                                          data_encipherment=False, key_agreement=False, key_cert_sign=True,
                                          crl_sign=True, encipher_only=False, decipher_only=False), critical=False)
    return b.sign(issuer_key, hash_alg or hashes.SHA256())


def save_cert(relname, cert):
    open(f"{OUT}/{relname}.pem", "wb").write(cert.public_bytes(serialization.Encoding.PEM))
    open(f"{OUT}/{relname}.der", "wb").write(cert.public_bytes(serialization.Encoding.DER))


certs_index = {}
serial = 1000
for bits in (2048, 3072, 4096):
    roots = [f"rsa{bits}_{i}" for i in range(4)]
    for r, rk in enumerate(roots):
        key = KEYS[rk]
        serial += 1
        save_cert(f"certs/rsa{bits}_root{r}_ca", mkcert(f"root{r}-{bits}", key, f"root{r}-{bits}", key, True, serial))
        serial += 1
        save_cert(f"certs/rsa{bits}_root{r}_nonca", mkcert(f"root{r}-{bits}", key, f"root{r}-{bits}", key, False, serial))
    # chains under root 0 and root 1: intermediates use further pool keys of other sizes where needed
    # chain keys: reuse keys of the same size: root r -> im1 (key (r+1)%cnt) -> im2 (key (r+2)%cnt) -> leaf (key (r+3)%cnt)
    for r in range(4):
        ks = [f"rsa{bits}_{(r + j) % 4}" for j in range(4)]
        # depth 2: root(ca) -> leaf
        serial += 1
        save_cert(f"certs/rsa{bits}_root{r}_d2_leaf", mkcert(f"leaf-d2-{r}-{bits}", KEYS[ks[1]], f"root{r}-{bits}", KEYS[ks[0]], False, serial))
        # depth 3: root -> im1(ca) -> leaf
        serial += 1
        save_cert(f"certs/rsa{bits}_root{r}_im1", mkcert(f"im1-{r}-{bits}", KEYS[ks[1]], f"root{r}-{bits}", KEYS[ks[0]], True, serial))
        serial += 1
        save_cert(f"certs/rsa{bits}_root{r}_d3_leaf", mkcert(f"leaf-d3-{r}-{bits}", KEYS[ks[2]], f"im1-{r}-{bits}", KEYS[ks[1]], False, serial))
        # depth 4: root -> im1 -> im2(ca) -> leaf
        serial += 1
        save_cert(f"certs/rsa{bits}_root{r}_im2", mkcert(f"im2-{r}-{bits}", KEYS[ks[2]], f"im1-{r}-{bits}", KEYS[ks[1]], True, serial))
        serial += 1
        save_cert(f"certs/rsa{bits}_root{r}_d4_leaf", mkcert(f"leaf-d4-{r}-{bits}", KEYS[ks[3]], f"im2-{r}-{bits}", KEYS[ks[2]], False, serial))
        certs_index[f"rsa{bits}_root{r}"] = {
            "root_key": ks[0],
            "d1": {"chain": [f"certs/rsa{bits}_root{r}_nonca"], "signing_key": ks[0]},
            "d2": {"chain": [f"certs/rsa{bits}_root{r}_ca", f"certs/rsa{bits}_root{r}_d2_leaf"], "signing_key": ks[1]},
            "d3": {"chain": [f"certs/rsa{bits}_root{r}_ca", f"certs/rsa{bits}_root{r}_im1", f"certs/rsa{bits}_root{r}_d3_leaf"], "signing_key": ks[2]},
            "d4": {"chain": [f"certs/rsa{bits}_root{r}_ca", f"certs/rsa{bits}_root{r}_im1", f"certs/rsa{bits}_root{r}_im2", f"certs/rsa{bits}_root{r}_d4_leaf"], "signing_key": ks[3]},
        }
# self-signed ECC certificates (one per ecc key) for "certificate" input encodings
for kname, key in KEYS.items():
    if isinstance(key, ec.EllipticCurvePrivateKey):
        serial += 1
        h = {"secp256r1": hashes.SHA256(), "secp384r1": hashes.SHA384(), "secp521r1": hashes.SHA512()}[key.curve.name]
        save_cert(f"certs/{kname}_selfsigned", mkcert(kname, key, kname, key, True, serial, hash_alg=h))
json.dump(certs_index, open(f"{OUT}/certs/index.json", "w"), indent=1, sort_keys=True)

# ---------------------------------------------------------------------------------------------
# HAB PKI: SRKi (CA, self-signed) -> CSFi (leaf), IMGi (leaf); RSA-2048, RSA-4096, P-256, P-384
hab_index = {}


def gen(kind):
    if kind.startswith("rsa"):
        return rsa.generate_private_key(65537, int(kind[3:]))
    return ec.generate_private_key(CURVES[kind])


def save_hab_key(nm, key):
    open(f"{OUT}/hab/{nm}_key.pem", "wb").write(key.private_bytes(serialization.Encoding.PEM, serialization.PrivateFormat.PKCS8, serialization.NoEncryption()))


for kind in ("rsa2048", "rsa4096", "p256", "p384"):
    h = hashes.SHA384() if kind == "p384" else hashes.SHA256()
    entries = []
    for i in range(1, 5):
        srk = gen(kind)
        csf = gen(kind)
        img = gen(kind)
        serial += 3
        save_hab_key(f"{kind}_SRK{i}", srk)
        save_hab_key(f"{kind}_CSF{i}", csf)
        save_hab_key(f"{kind}_IMG{i}", img)
        save_cert(f"hab/{kind}_SRK{i}_crt", mkcert(f"SRK{i}_{kind}", srk, f"SRK{i}_{kind}", srk, True, serial, hash_alg=h))
        save_cert(f"hab/{kind}_CSF{i}_crt", mkcert(f"CSF{i}_{kind}", csf, f"SRK{i}_{kind}", srk, False, serial + 1, hash_alg=h))
        save_cert(f"hab/{kind}_IMG{i}_crt", mkcert(f"IMG{i}_{kind}", img, f"SRK{i}_{kind}", srk, False, serial + 2, hash_alg=h))
        entries.append({"srk_cert": f"hab/{kind}_SRK{i}_crt.pem", "srk_key": f"hab/{kind}_SRK{i}_key.pem",
                        "csf_cert": f"hab/{kind}_CSF{i}_crt.pem", "csf_key": f"hab/{kind}_CSF{i}_key.pem",
                        "img_cert": f"hab/{kind}_IMG{i}_crt.pem", "img_key": f"hab/{kind}_IMG{i}_key.pem"})
    hab_index[kind] = entries
json.dump(hab_index, open(f"{OUT}/hab/index.json", "w"), indent=1, sort_keys=True)
print("keys:", len(index), "cert sets:", len(certs_index), "hab kinds:", len(hab_index))
