#!/usr/bin/env python3
"""Regenerate the generated tables of DESIGN.md (between <!-- GEN:x --> markers) from known_findings.json,
seeded/*/meta.json and the fix: commits of /repo."""
import glob, json, os, re, subprocess
HERE = os.path.dirname(os.path.dirname(os.path.abspath(__file__)))
kf = json.load(open(os.path.join(HERE, "known_findings.json")))["findings"]
log = subprocess.check_output(["git", "-C", "/repo", "log", "--reverse", "--format=%h\t%s", "--grep=^fix:"], text=True).strip().splitlines()
commits = [l.split("\t", 1) for l in log if l.split("\t", 1)[1].startswith("fix:")]
by_commit = {}
for e in kf:
    if e["status"] == "fixed" and e.get("commit"):
        by_commit.setdefault(e["commit"][:7], []).append(e)

def esc(s):
    return s.replace("|", "\\|").replace("\n", " ")

fix_rows = ["| commit | property: clause [discriminator] | what failed |", "|---|---|---|"]
for h, subj in commits:
    es = by_commit.get(h[:7], [])
    if es:
        cl = "; ".join(f"{e['property']}: `{e['clause']}` [{esc(e['disc'])[:70]}]" for e in es[:3])
        what = esc(re.sub(r"^fixed: property=\S+ \S+ ", "", es[0]["what"]))[:260]
    else:
        cl, what = "(prerequisite / same defect as neighbour)", esc(subj[5:])
    fix_rows.append(f"| {h} | {cl} | {what} |")
known_rows = ["| property | clause [discriminator] | what fails, and why it is recorded rather than repaired |", "|---|---|---|"]
for e in sorted(kf, key=lambda e: (e["property"], e["clause"], e["disc"])):
    if e["status"] == "known":
        known_rows.append(f"| {e['property']} | `{e['clause']}` [{esc(e['disc'])}] | {esc(e['what'])[:420]} |")
seed_rows = ["| id | needs, in order to manifest | detected | firing clause |", "|---|---|---|---|"]
def skey(p):
    m = re.match(r".*/C(\d+)-(\d+)/meta.json", p)
    return (int(m.group(1)), int(m.group(2)))
for p in sorted(glob.glob(os.path.join(HERE, "seeded", "*", "meta.json")), key=skey):
    m = json.load(open(p))
    seed_rows.append(f"| {m['id']} | {esc(m['needs_to_manifest'])[:330]} | {m['detected_by_check']} | {esc(m['firing_clause'])[:160]} |")
tables = {"fixes": "\n".join(fix_rows), "known": "\n".join(known_rows), "seeds": "\n".join(seed_rows)}
dp = os.path.join(HERE, "DESIGN.md")
s = open(dp).read()
for k, t in tables.items():
    a, b = f"<!-- GEN:{k} -->", f"<!-- /GEN:{k} -->"
    if a in s:
        s = s[: s.index(a) + len(a)] + "\n" + t + "\n" + s[s.index(b):]
open(dp, "w").write(s)
print({k: len(v.splitlines()) - 2 for k, v in tables.items()})
