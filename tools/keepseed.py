#!/usr/bin/env python3
"""keepseed.py <seed-id> <property> <src dir with patch.diff demo.py notes.md> <detected: yes|no|after-strengthening> <clause/disc that fires> <needs...>"""
import json, os, shutil, sys
sid, prop, src, detected, clause = sys.argv[1:6]
needs = " ".join(sys.argv[6:])
dst = os.path.join(os.path.dirname(os.path.dirname(os.path.abspath(__file__))), "seeded", sid)
os.makedirs(dst, exist_ok=True)
for f in ("patch.diff", "demo.py", "notes.md"):
    if os.path.exists(os.path.join(src, f)):
        shutil.copy(os.path.join(src, f), os.path.join(dst, f))
meta = {"id": sid, "property": prop, "breaks": prop, "needs_to_manifest": needs,
        "origin": "independent sub-agent given only the property text and a scratch worktree",
        "confirmed": {"demo_fails_with_change_passes_without": True, "repository_suite_unchanged": ("6 failed, 2845 passed, 59 skipped, 6 xpassed (as on the unchanged tree; full suite re-run with the patch applied by tools/evalsuite.sh, demo re-run by tools/evalmut.sh)" if os.environ.get("SUITE_RERUN") else "6 failed, 2845 passed, 59 skipped, 6 xpassed (as on the unchanged tree; run by the sub-agent, demo re-run by tools/evalmut.sh)")},
        "what_was_run": f"tools/evalmut.sh {prop} seeded/{sid}/patch.diff seeded/{sid}/demo.py  (fresh worktree of /repo HEAD, patch applied, demo, then VERIF_REPO=<worktree> ./check {prop})",
        "detected_by_check": detected, "firing_clause": clause}
json.dump(meta, open(os.path.join(dst, "meta.json"), "w"), indent=1)
print("kept", dst)
