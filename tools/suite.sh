#!/bin/bash
# run the repository's own suite (xdist) and compare with the baseline counts
cd "${1:-/repo}" && /venv/bin/python -m pytest -q -p no:cacheprovider --timeout=900 --continue-on-collection-errors -n 14 2>&1 | tail -12 | tee /var/tmp/vf/suite_last.log | tail -1
grep -q "6 failed, 2845 passed, 59 skipped, 6 xpassed" /var/tmp/vf/suite_last.log && echo SUITE-OK || { echo SUITE-DIFFERS; exit 1; }
