#!/usr/bin/env python3
"""Maintain known_findings.json by hand-driven commands (never used by the checks at run time).
  kf.py add <property> <clause> <disc> known|fixed <what> [commit]
"""
import json, sys, os
P = os.path.join(os.path.dirname(os.path.dirname(os.path.abspath(__file__))), "known_findings.json")
d = json.load(open(P))
if sys.argv[1] == "add":
    prop, clause, disc, status, what = sys.argv[2:7]
    commit = sys.argv[7] if len(sys.argv) > 7 else None
    d["findings"] = [e for e in d["findings"] if not (e["property"] == prop and e["clause"] == clause and e["disc"] == disc)]
    e = {"property": prop, "clause": clause, "disc": disc, "status": status,
         "what": (f"fixed: property={prop} {commit} " if status == "fixed" else "") + what}
    if commit:
        e["commit"] = commit
    d["findings"].append(e)
    d["findings"].sort(key=lambda e: (e["property"], e["status"], e["clause"], e["disc"]))
with open(P, "w") as f:
    f.write('{\n "_comment": ' + json.dumps(d["_comment"]) + ',\n "findings": [\n')
    f.write(",\n".join("  " + json.dumps(e) for e in d["findings"]))
    f.write("\n ]\n}\n")
