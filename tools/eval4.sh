#!/bin/bash
# tools/eval4.sh <Cxx> <a|b> : evaluate one fourth-round change of /tmp/mut4-<Cxx>/_out/<a|b> (demo on HEAD / with change, check, full suite)
p="$1"; v="$2"; d="/tmp/mut4-$p/_out/$v"
[ -f "$d/patch.diff" ] || { echo "no patch in $d"; exit 2; }
echo "== $p/$v: $(grep -E '^\+\+\+ ' "$d/patch.diff" | tr '\n' ' ')"
cd /verif && VERIF_NPROC="${VERIF_NPROC:-8}" tools/evalmut.sh "$p" "$d/patch.diff" "$d/demo.py"
[ -n "${NOSUITE:-}" ] || tools/evalsuite.sh "$d/patch.diff" "${SUITE_N:-6}"
